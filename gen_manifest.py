#!/usr/bin/env python3
"""Regenerates MANIFEST.json from the table below (kept in one place so it stays valid)."""
import json, subprocess, os

ROOT = os.path.dirname(os.path.abspath(__file__))

def hook_commits():
    out = subprocess.run(["git", "-C", "/repo", "log", "--format=%h %s"], capture_output=True, text=True).stdout
    return [l.split()[0] for l in out.splitlines() if l.split(" ", 1)[1].startswith("verif hooks")]

TECH = "deterministic simulation with fault injection"

CHECKS = {
 "C01": dict(engine="storesim", cat="exploration",
   text="The real sierradb::Database runs under the storesim simulator (client futures polled by a hand-rolled executor, simulated sync timer and clocks, fsync ledger through hook points). Seeded histories of valid / conflicting / oversized / bad-timestamp / I/O-failing appends, reopens and clock jumps on swarm configurations; at every acknowledgement the ledger must show the transaction's last byte fsynced, all four read APIs must return it identically with no writer progress in between, and a power-loss image (everything unsynced dropped) reopened must still contain every acknowledged transaction.",
   note="Sequential scheduler: one operation in flight (concurrent acks are C15/C16/C20). Power-loss images are built from the ledger, not by the kernel; index files of sealed segments are taken as written (their crash states are C06).",
   technique=TECH + ": seeded operation histories on the real store with fsync ledger, injected append I/O errors, clock jumps and power-loss reopen at acknowledgement points", ref="§4 C01"),
 "C02": dict(engine="storesim", cat="exploration",
   text="Same engine; seeded histories weighted towards expectation variety (every ExpectedVersion kind right and wrong, repeated streams in one transaction, several streams/partitions per bucket, expected partition sequences, same-bucket key conflicts, reopens, held/released index flushes). A 150-line reference event-log model decides accept/reject and its class for every append; versions and sequences are diffed after every step and full scans periodically, after reopen and at the end.",
   note="Model and store are compared on rejection classes, not messages. Space rejections (SegmentFull) are C19's subject and are not flagged here.",
   technique=TECH + ": seeded histories on the real store diffed step by step against a reference event-log model, across reopens and rollovers", ref="§4 C02"),
 "C03": dict(engine="storesim", cat="exploration",
   text="Same engine; histories of accepted appends laid out across block-cache and read-buffer boundaries and 1-12 segments; at 3-6 checkpoints (sealed-segment index flush held, released, after reopen) every stream and partition is scanned from a sweep of start positions in both directions with batch sizes 1..len+5 and compared with the model (forward: exactly model[start..]; reverse: set equality with model[..=start], transaction-contiguous groups, decreasing order).",
   note="The sweep is exhaustive in start position only for streams/partitions of <=12 events, sampled above. Known finding listed: reverse scans starting inside a transaction return later siblings.",
   technique=TECH + ": seeded histories plus scan-parameter sweeps at scheduler-controlled checkpoints (index flush held/released, reopen) against a reference model", ref="§4 C03"),
 "C04": dict(engine="storesim", cat="exploration",
   text="Gated scheduler of engine A: client tasks, the writer threads (parked at every hook point inside handle_write: after each event, after the commit record, after the buffer flush), the sync timer and the index-flush jobs are entities of one seeded scheduler, one of which runs per step. Appenders issue mostly multi-event transactions (some failing half way), readers run lookups and scans while the writer is parked inside a transaction; process-crash images are taken at those points and reopened. Every returned event must belong to a successful transaction of the serial order and every returned group must contain all siblings that pass the filter.",
   note="Between two hook points a writer runs atomically; power-loss cuts inside a transaction are C05's enumeration, this check takes process-crash images (what reached write(2)) at the parked points.",
   technique=TECH + ": seeded baton scheduler over client tasks and gated writer threads, readers interleaved inside transactions, crash images at parked points", ref="§4 C04"),
 "C15": dict(engine="storesim", cat="exploration",
   text="Gated scheduler; 1-3 appenders and 1-3 readers on minimum-size segments. The writer is parked at six rollover stages and around sync while readers run complete operations; iterator construction is parked at its yield hook while a whole rollover runs. Invocation/response are stamped with the scheduler's step counter: a read invoked after an acknowledgement was observed must see it (event lookup, versions, sequences, scans), one reader's observations never go backwards, scans are gapless prefixes of the final serial order and the final state equals it.",
   note="Versions learnt from a rejected append's error (which reflects written-but-unsynced state) are not counted as observations. reader_threads = 1.",
   technique=TECH + ": seeded baton scheduler (uniform / writer-starved / readers-preferred-inside-rollover) with step-stamped histories checked for real-time visibility and per-reader monotonicity", ref="§4 C15"),
 "C16": dict(engine="storesim", cat="exploration",
   text="Gated scheduler; 2-6 clients race optimistic appends (Exact/Empty from what each client last observed, some over two streams or with an expected partition sequence) on 1-3 hot streams. History oracle: successes ordered by (partition, first sequence) replay on the model with exactly the returned positions; every rejection must be justified at a point of that order compatible with its invocation/response steps; the final observable state equals the serial execution.",
   note="Serial order is taken per partition (transactions are single-partition).",
   technique=TECH + ": seeded baton scheduler over racing clients, serial-order replay of the recorded history on a reference model", ref="§4 C16"),
 "C20": dict(engine="storesim", cat="exploration",
   text="Gated scheduler with the simulated sync timer (the syncer thread is replaced by FlushPoll events at the deadlines it computes); clients are starved between the writer's reply and their next poll while later requests, rollovers and ticks are processed. Once the last operation is issued the scheduler turns fair and every append future must resolve within 2000 steps / 32 sync_idle_intervals of simulated time (bounded liveness after faults stop).",
   note="Healthy disk only (no injected I/O errors). At most one FlushPoll is outstanding per writer (the timer cannot flood the queue in zero simulated time).",
   technique=TECH + ": seeded baton scheduler with simulated clock/timer, bounded-progress liveness check after the schedule turns fair", ref="§4 C20"),
 "C05": dict(engine="storesim", cat="fault_enumeration",
   text="Same engine; appends are submitted without waiting for their acknowledgement under sync policies that leave an unsynced tail. At 2-5 crash instants per history the harness builds, from the fsync ledger, the power-loss image for every cut k of the live segment's unsynced tail (bytes written up to k + durable bytes after k; every byte when the tail is <= 4 KiB and under the per-instant cap, else record/field boundaries +-1 and PRNG cuts), reopens each image with the real DatabaseBuilder::open and requires: open succeeds, state = model after a per-bucket prefix of the written transactions that contains every acknowledged one, all read APIs work, three further appends continue the numbering without gap or reuse, a second reopen succeeds.",
   note="Enumeration is exhaustive per sampled crash instant only (reported per run); images are built by the harness from hook records, not by the kernel; sealed-segment index files are taken as written (C06 varies them).",
   technique=TECH + ": crash-point enumeration - every byte cut of the unsynced tail per crash instant, images built from an fsync ledger, recovery checked against a reference model", ref="§4 C05"),
 "C06": dict(engine="storesim", cat="fault_enumeration",
   text="Same engine; background index flush jobs are held at their hook point so a rollover leaves the sealed segment's three index files empty; the real job is then released to obtain the complete contents. Per sealed segment the files are put into {empty, every 64-byte prefix and header-field boundary, complete} with one file swept through all states while the others take PRNG states, plus the all-empty (process crash before the flush) and all-complete corners; every image is reopened and checked like C05 (every acknowledged event found by id, stream scan, partition scan; numbering continues).",
   note="Pairwise rather than cubic coverage of the three files' states; prefixes are truncations of the content the real job writes (the files are written with write_all and never fsynced).",
   technique=TECH + ": crash-state enumeration of the three background-written index files per rollover (scheduler holds the flush jobs), recovery checked against a reference model", ref="§4 C06"),
 "C19": dict(engine="storesim", cat="exploration",
   text="Same engine, sequential scheduler; per run a twin of the target transaction is first stored in the empty segment (premise: it fits; stored size measured through the append hook), then byte-precise filler appends steer the live segment's free space below / between / above (estimated size, stored size) of the target, which is then appended with up to five identical attempts and read back.",
   note="The deciding dimensions are history and configuration (fill level, payload entropy, compression), not schedule; the critical zone estimated <= free < stored is a few bytes wide and is hit in a minority of runs (counted in probes).",
   technique=TECH + ": seeded histories steering the live segment's fill level between estimated and stored size, retry loop, read-back against the model", ref="§4 C19"),
 "C22": dict(engine="clustersim", cat="exploration",
   text="One real ClusterActor (N = 1, rf = 1) and the real RESP server serving a client connection over an in-memory duplex pipe (hook S1). The simulator is the client: it sends seeded command histories from the documented grammar as RESP3 arrays, delivered in PRNG chunks (partial frames), some appends with a read pipelined behind them in the same write while the confirmation actor's mailbox is held back (hook K7): EAPPEND/EMAPPEND with every EXPECTED_VERSION form right and wrong, new and existing streams, multi-stream transactions, explicit ids, boundary timestamps; EGET; ESCAN/EPSCAN with PRNG ranges and counts; ESVER; EPSEQ; ESUB/EPSUB with FROM and WINDOW, their pushed messages and EACK; PING; 12 kinds of invalid request. A reference event-store model decides accept/reject and every reply field (sequences and per-event stream versions, event contents, scan contents, has_more, versions); invalid requests must answer an error and the connection must stay usable.",
   note="ESUB (single stream), EPSUB (single partition) and EACK are driven through the RESP layer with start positions and windows; the multi-stream / multi-partition / MAP forms are checked below the RESP layer in C09. Every stream is used under one home partition key (queries with a key other than the stream's own are outside the model). Scheduling and faults play a small part here: the fault kinds are partial frames and invalid requests on a live connection.",
   technique=TECH + ": seeded command histories with partial-frame delivery over a simulated connection to the real server and ClusterActor, checked reply by reply against a reference event-store model", ref="§9.7"),
 "C26": dict(engine="breakersim", cat="exploration",
   text="The real circuit_breaker.rs source file is compiled (build.rs) against shuttle's atomics and a simulated millisecond wall clock; each run is one shuttle execution (seeded random or PCT depth 2-4 scheduler, every atomic access a scheduling point) of 2-3 threads x 3-8 calls with the clock advanced or stepped backwards between calls. Oracle: no panic; from the recorded call intervals, no half-open episode admits more than half_open_max_calls (+ the transition-triggering request) for every linearisation; Closed->Open only when enough failures had started.",
   note="Sequentially consistent interleavings only (no weak-memory effects); verdicts are interval-conservative, so some real violations overlapping episode edges are not counted.",
   technique=TECH + ": shuttle-controlled thread schedules (seeded random + PCT) over the real breaker source with a simulated clock, interval-based history oracle", ref="§4 C26"),
 "C07": dict(engine="clustersim", cat="exploration",
   text="One real ClusterActor (configured replication factor 1..5) over a store populated with transactions carrying arbitrary confirmation counts; real ConfirmTransaction messages in PRNG order (raising counts, stale lower counts, duplicates), node restarts, and reads of every kind and parameter (ReadEvent, ReadPartition, ReadStream with PRNG start/end/count straddling the watermark, GetPartitionSequence, GetStreamVersion). Every answer is compared with the model's confirmed prefix: nothing at or beyond it may be revealed.",
   note="Single node: forwarding of reads to other replicas is exercised in the C10/C11 cluster runs, not here. The oracle is soundness (nothing unconfirmed revealed); completeness of answers is counted as a probe only.",
   technique=TECH + ": seeded interleavings of confirmation messages, restarts and reads against a real ClusterActor, checked against a reference model of the confirmed prefix", ref="§9.7"),
 "C09": dict(engine="clustersim", cat="exploration",
   text="The multi-node engine (1 or 3 real ClusterActors) with real client writes and confirmation traffic under message loss, delay, stragglers (late ConfirmTransaction leaves watermark holes), link cuts and isolation, and the simulator playing the subscriber: real Subscribe messages for partition, multi-partition, all-partition, stream and multi-stream matchers with any start position and window on any node, acknowledgements with PRNG lag through the watch channel. After every operation the update channels are drained and checked (cursors consecutive; per partition sequences / per stream versions consecutive from the start position: no gap, duplicate or reordering; only matching events; unacknowledged deliveries within the window); after faults stop and everything is acknowledged every delivered event lies inside the node's confirmed prefix and everything confirmed from the start position on has been delivered.",
   note="The RESP layer (ESUB/EPSUB parsing, acknowledgement commands) is not in the loop: the simulator holds the update channel and the acknowledgement watch channel that the server connection would hold. The order across partitions/streams of one subscription is the code's own random choice and is not checked.",
   technique=TECH + ": seeded interleavings of writes, confirmation traffic under network faults, subscriptions and acknowledgements over a cluster of real ClusterActors; delivery histories checked for order, gaps, duplicates, window and completeness", ref="§9.7"),
 "C10": dict(engine="clustersim", cat="exploration",
   text="N (2..5) real ClusterActors in one process, each on its own paused-clock tokio runtime (a crash drops the runtime), connected by a simulated network that carries the real serialised kameo messages (ExecuteTransaction forwards, ReplicateWrite, ConfirmTransaction, PartitionSyncRequest and their replies) with per-message fates from a content-keyed PRNG: delay, straggler delay up to 15 s, loss, duplication, unreachable peer; silent link cuts, isolated nodes, crashes and restarts with surviving disks; membership through the nodes' own heartbeat/ownership gossip over a simulated bus, so views diverge. After every operation and after faults stop (+32 s) every node's partition logs are read back: gapless, at most one transaction ever seen with a quorum confirmation count per (partition, sequence) across nodes and time, confirmed prefixes of any two nodes agree event for event.",
   note="kameo's libp2p swarm is replaced at its command channel by a vendored kameo (sim/vendor/kameo, remote::sim); gossipsub propagation is a simulated bus. A lost message surfaces as NetworkTimeout after 10 s as in kameo's request-response defaults. The failsafe breaker inside the replicator reads the real monotonic clock.",
   technique=TECH + ": seeded message fates (delay/loss/duplication/reordering), partitions, crash/restart and divergent membership over a cluster of real ClusterActors; agreement invariants over the recorded replica logs", ref="§9.7"),
 "C11": dict(engine="clustersim", cat="exploration",
   text="The same runs as C10. Oracle: every write acknowledged to its client sits whole at its acknowledged sequences on at least a quorum of nodes and carries a quorum confirmation count on its coordinator, at the check following the acknowledgement and at every later one (including after crashes, restarts and catch-up).",
   note="as C10",
   technique=TECH + ": same seeded cluster runs as C10; durability-on-quorum oracle over the recorded replica logs and client acknowledgements", ref="§9.7"),
 "C08": dict(engine="clustersim", cat="fault_enumeration",
   text="The real BucketConfirmationManager/PartitionConfirmationState with a real Database on a tokio runtime; the simulator owns the delivery order of confirmation reports (final counts, stale lower counts, duplicates, per-version reports that leave holes; the on-disk count is written before each report as ConfirmTransaction does) and the clock that drives time-based persistence. Live oracle after every report (monotone, <= prefix with a reported quorum count, = prefix at the end); crash enumeration: the confirmation directory is snapshotted through hook points at every step of every persist_bucket_state plus every 32-byte prefix of the temp file, and a fresh manager is initialised from each snapshot against the database.",
   note="The ConfirmationActor mailbox is bypassed (the manager is driven directly); crash states are directory snapshots taken by the harness, not kernel-level.",
   technique=TECH + ": seeded delivery permutations of confirmation reports plus crash-point enumeration of the temp-file/rename persistence sequence through hook snapshots", ref="§4 C08"),
 "C12": dict(engine="clustersim", cat="exploration",
   text="The real PartitionReplicatorActor (ordered queues, buffering, eviction, catch-up, timers) with a real ConfirmationActor and Database runs on tokio's paused clock under a never-parking driver, so simulated time only moves when the scheduler advances it. The simulator is the coordinator and the network: ReplicateWrite messages in shuffled order with duplicates, conflicts, stale/far-ahead writes and withheld writes; clock advances past the catch-up and buffer timeouts; catch-up requests answered through the transport seam (error, empty, partial, complete, 20 ms simulated latency). Invariants at every quiescent point and bounded answering after the last delivery.",
   note="One replicator actor; ClusterActor's sender/staleness checks in front of it are not run here. The first write applied at a sequence defines it.",
   technique=TECH + ": seeded message reordering/duplication/conflict injection against the real replicator actor on a simulated clock, transport seam for catch-up", ref="§4 C12"),
 "C14": dict(engine="clustersim", cat="exploration",
   text="One real sierradb_topology::Behaviour (heartbeat/ownership encode+decode, ConnectionEstablished/Closed handling, heartbeat and timeout intervals fired through poll on tokio's paused clock) around a real TopologyManager per simulated node. The simulator is the swarm and gossipsub: it raises the FromSwarm connection events, copies every published message out of the behaviour (hook T2) and delivers it to every node reachable from the sender with per-recipient delay, loss and reordering; it also cuts links silently, restarts nodes with a new alive_since and advances time past the heartbeat timeout. Invariants after every delivery and tick, agreement and bounded convergence after faults stop, plus the static assignment over all N configured nodes (N up to 1000, including 255/256/257).",
   note="gossipsub propagation and the libp2p swarm are stubbed by the bus; HashMap iteration order inside the manager is not seedable, so a run is replayable up to that order (the oracles do not depend on it on a correct tree).",
   technique=TECH + ": seeded membership-event orders (connect, heartbeat, timeout, ownership request/response, restart) with message delay/loss/reordering over a simulated bus against the real topology behaviour; configuration sampled per run", ref="§4 C14"),
 "C17": dict(engine="storesim", cat="fault_enumeration",
   text="Seeded segments written by the real seglog Writer; per target record every single-bit flip, bursts of 2..32 bits and every truncation length are applied to the stored bytes of the real file and each is checked through random read, sequential read, iteration, parse_record and Writer::open (never Ok, never a panic; predecessors intact; writer resumes after the last intact record). Exhaustive per sampled record below the caps, sampled above.",
   note="Trusts the harness's byte-level fault application and the model of what was appended; CRC collisions for multi-bit faults outside the enumerated classes are not searched.",
   technique=TECH + ": stored-byte fault enumeration (bit flips, bursts, truncations) over seeded segment histories, 5 read paths", ref="§4 C17"),
 "C18": dict(engine="storesim", cat="exploration",
   text="Seeded interleavings of writer operations (append, flush, sync, set_len, compression toggles) with long-lived readers (random/sequential reads, iteration, read_bytes, header replacement, clones), including reader operations injected inside the set_len and sync windows through hook points; every read is compared with a record-vector model and the flushed boundary.",
   note="Operation-granularity interleaving on one thread (plus the two hook windows); atomics-level races on FlushedOffset are out of reach.",
   technique=TECH + ": seeded operation interleavings of one writer and many long-lived readers against a reference model, reader ops injected at hook windows", ref="§4 C18"),
}

NOT_APPLICABLE = {
 "C13": "pure function of configuration (two placement functions compared over a configuration space); no schedule, clock, fault or history to simulate — DESIGN §4 C13",
 "C21": "the command parser is a pure function of its input frames; deciding it is grammar-based input generation, not simulation — DESIGN §4 C21",
 "C23": "bit-layout identities of id functions; pure, exhaustively enumerable without a simulator — DESIGN §4 C23",
 "C24": "distribute_partition is a pure function of three integers — DESIGN §4 C24",
 "C25": "pure algebra on two enums; the store-agreement clause is observed as a by-product of C02 but not claimed — DESIGN §4 C25",
}

PENDING = {}  # id -> reason, for properties whose check is not built yet

def main():
    props = [json.loads(l)["id"] for l in open(os.path.join(ROOT, "properties.jsonl"))]
    checks = []
    for pid in props:
        if pid not in CHECKS:
            continue
        c = CHECKS[pid]
        checks.append({
            "property_id": pid,
            "quick_cmd": f"./check {pid} quick",
            "thorough_cmd": f"./check {pid} thorough",
            "evidence_file": f"/verif/evidence/{pid}.json",
            "replay_cmd_template": f"./check {pid} --replay {{path}}",
            "engine": c["engine"],
            "level_claimed": {"category": c["cat"], "text": c["text"], "design_ref": c["ref"]},
            "level_note": c["note"],
            "technique": c["technique"],
        })
    na = []
    for pid in props:
        if pid in CHECKS:
            continue
        reason = NOT_APPLICABLE.get(pid) or PENDING.get(pid) or "check not built yet in this tree; not claimed"
        na.append({"property_id": pid, "reason": reason})
    engines = {}
    for pid, c in CHECKS.items():
        engines.setdefault(c["engine"], []).append(pid)
    manifest = {
        "version": 1,
        "setup_cmd": "./setup.sh",
        "hooks": {
            "guard": "cargo feature `verif` (seglog, sierradb, sierradb-topology, sierradb-cluster, sierradb-server); off by default",
            "enable": "the engine crates under /verif/sim depend on /repo/crates/* by path with features=[\"verif\"]; ./check rebuilds them with cargo build --offline --profile sim. The simulation build (not /repo) also patches kameo with /verif/sim/vendor/kameo (kameo 0.19.2 plus the remote::sim seam that hands swarm commands to the simulator) and sets --cfg tokio_unstable for tokio's blocking-pool metrics and seeded select!",
            "baseline_off_cmd": "cd /repo && cargo nextest run --workspace --no-fail-fast --tool-config-file pb:/w/lib/nextest.toml --profile pb --test-threads 8 --offline || cargo test --workspace --no-fail-fast --offline",
            "source_commits": hook_commits(),
            "add_only": True,
        },
        "engines": [
            {"name": n, "path": f"/verif/sim/{n}", "serves_properties": sorted(p), "kind_free_text": KINDS.get(n, "")}
            for n, p in sorted(engines.items())
        ],
        "checks": checks,
        "not_applicable": na,
        "notes": "All checks are seeded deterministic simulations (VERIF_SEED, default 1); violations are minimised and written to /verif/replays/<id>-<hash>.json; known findings live in /verif/known_findings.jsonl. See DESIGN.md.",
    }
    json.dump(manifest, open(os.path.join(ROOT, "MANIFEST.json"), "w"), indent=1)
    print("checks:", [c["property_id"] for c in checks])
    print("not claimed:", [n["property_id"] for n in na])

KINDS = {
 "storesim": "engine A: real sierradb::Database (writer threads gated at hook points, hand-rolled executor, fsync ledger, crash images on /dev/shm); engine B: real seglog Writer/Readers on a real file with stored-byte faults",
 "breakersim": "engine D: the real circuit_breaker.rs source compiled against shuttle atomics and a simulated wall clock, explored by shuttle's seeded random and PCT schedulers",
 "clustersim": "engines C/E: real sierradb-cluster components driven directly (confirmation manager, replicator actor) and a multi-node engine running N real ClusterActors (plus the real RESP server for C22) in one process, each node on its own paused-clock tokio runtime, over a simulated network (per-message delay/loss/duplication/unreachable, link cuts, isolation, crash = runtime drop, restart) and a simulated gossip bus; engine E: real topology Behaviour + TopologyManager over the same kind of bus",
}

if __name__ == "__main__":
    main()
