#!/bin/bash
# Builds every simulation engine offline from files on disk.
set -eu
ROOT=$(cd "$(dirname "$0")" && pwd)
export CARGO_NET_OFFLINE=true
cd "$ROOT/sim"
cargo build --offline --profile sim --workspace
