//! Engine D — breakersim: the real `circuit_breaker.rs` source compiled against shuttle's atomics
//! and a simulated wall clock, explored by shuttle's seeded random and PCT schedulers (C26).

use std::collections::BTreeMap;
use std::sync::Mutex;
use std::sync::atomic::{AtomicU64, Ordering as StdOrdering};

use serde_json::{Value, json};
use simcore::runner::{Engine, Tier};
use simcore::{Chain, PropertyInfo, Rng, RunOutcome, Violation, fnv};

/// Simulated wall clock in milliseconds (plain atomic: only one shuttle thread runs at a time).
static CLOCK_MS: AtomicU64 = AtomicU64::new(0);

pub mod simtime {
    use std::time::Duration;

    #[derive(Clone, Copy, Debug, PartialEq, Eq, PartialOrd, Ord)]
    pub struct SystemTime(pub u64);
    pub const UNIX_EPOCH: SystemTime = SystemTime(0);

    #[derive(Debug)]
    pub struct SystemTimeError;

    impl SystemTime {
        pub fn now() -> SystemTime {
            SystemTime(super::CLOCK_MS.load(std::sync::atomic::Ordering::SeqCst))
        }
        pub fn duration_since(&self, earlier: SystemTime) -> Result<Duration, SystemTimeError> {
            self.0.checked_sub(earlier.0).map(Duration::from_millis).ok_or(SystemTimeError)
        }
    }
}

#[allow(dead_code, unused_imports, clippy::all)]
mod real {
    // The file's own `use std::{...}` resolves to this local module, not to the standard library.
    mod std {
        pub mod sync {
            pub mod atomic {
                pub use shuttle::sync::atomic::{AtomicU8, AtomicU32, AtomicU64, Ordering};
            }
        }
        pub mod time {
            pub use core::time::Duration;

            pub use crate::simtime::{SystemTime, UNIX_EPOCH};
        }
    }
    include!(concat!(env!("OUT_DIR"), "/circuit_breaker.rs"));
}

use real::{CircuitState, WriteCircuitBreaker};

#[derive(Clone, Copy, Debug, PartialEq, Eq)]
enum OpKind {
    Allow,
    Success,
    Failure,
    Recovery,
    State,
}

#[derive(Clone, Debug)]
struct LogEntry {
    thread: usize,
    op: OpKind,
    allowed: Option<bool>,
    before: u8,
    after: u8,
    start: u64,
    end: u64,
    clock: u64,
}

fn state_u8(s: CircuitState) -> u8 {
    match s {
        CircuitState::Closed => 0,
        CircuitState::Open => 1,
        CircuitState::HalfOpen => 2,
    }
}

struct Scenario {
    failure_threshold: u32,
    recovery_ms: u64,
    half_open_max: u32,
    success_threshold: u32,
    /// per thread: (clock advance in ms before the op (may be negative), op)
    threads: Vec<Vec<(i64, OpKind)>>,
}

fn scenario_from_plan(plan: &Value) -> Scenario {
    let mut rng = Rng::new(plan["workload_seed"].as_u64().unwrap_or(1));
    let nthreads = plan["threads"].as_u64().unwrap_or(2) as usize;
    let max_ops = plan["max_ops"].as_u64().unwrap_or(6) as usize;
    let clock_faults = plan["clock_backwards"].as_bool().unwrap_or(false);
    let failure_threshold = 1 + rng.below(3) as u32;
    let recovery_ms = 10 + rng.below(41);
    let half_open_max = 1 + rng.below(3) as u32;
    let success_threshold = 1 + rng.below(4) as u32;
    // A quarter of the scenarios dwell in one half-open episode: the first thread opens the circuit and
    // lets the recovery time pass, then everybody mostly asks for admission and reports successes.
    let probe_heavy = rng.below(4) == 0;
    let mut threads = Vec::new();
    for t in 0..nthreads {
        let mut n = 3.min(max_ops) + rng.usize_below(max_ops.saturating_sub(3) + 1);
        if probe_heavy {
            n = max_ops + 2;
        }
        let mut ops = Vec::new();
        if probe_heavy && t == 0 {
            for _ in 0..failure_threshold {
                ops.push((0, OpKind::Failure));
            }
            ops.push((recovery_ms as i64, OpKind::Allow));
        }
        for _ in 0..n {
            if probe_heavy {
                let op = match rng.below(10) {
                    0..=5 => OpKind::Allow,
                    6..=8 => OpKind::Success,
                    _ => OpKind::State,
                };
                // the other threads often let the recovery time pass right away, while the report that
                // opens the circuit may still be in flight
                let adv = if t == 0 { 0 } else if ops.is_empty() { *rng.pick(&[0i64, recovery_ms as i64, recovery_ms as i64]) } else { *rng.pick(&[0i64, 0, 0, 1, recovery_ms as i64]) };
                ops.push((adv, op));
                continue;
            }
            let op = match rng.below(10) {
                0..=3 => OpKind::Allow,
                4..=5 => OpKind::Success,
                6..=7 => OpKind::Failure,
                8 => OpKind::Recovery,
                _ => OpKind::State,
            };
            let adv = match rng.below(6) {
                0 | 1 => 0,
                2 => 1,
                3 => rng.below(recovery_ms) as i64,
                4 => (recovery_ms + rng.below(recovery_ms)) as i64,
                _ => {
                    if clock_faults { -(rng.below(recovery_ms * 2) as i64) } else { recovery_ms as i64 }
                }
            };
            ops.push((adv, op));
        }
        threads.push(ops);
    }
    Scenario { failure_threshold, recovery_ms, half_open_max, success_threshold, threads }
}

static LOG: Mutex<Vec<LogEntry>> = Mutex::new(Vec::new());
static STEP: AtomicU64 = AtomicU64::new(0);
static RACE_PROBE: AtomicU64 = AtomicU64::new(0);

fn run_execution(sc: &Scenario) {
    use shuttle::sync::Arc;
    CLOCK_MS.store(1_000_000, StdOrdering::SeqCst);
    STEP.store(0, StdOrdering::SeqCst);
    LOG.lock().unwrap().clear();
    let cb = Arc::new(WriteCircuitBreaker::new(
        sc.failure_threshold,
        std::time::Duration::from_millis(sc.recovery_ms),
        sc.half_open_max,
        sc.success_threshold,
    ));
    let mut handles = Vec::new();
    for (ti, ops) in sc.threads.iter().cloned().enumerate() {
        let cb = cb.clone();
        handles.push(shuttle::thread::spawn(move || {
            for (adv, op) in ops {
                if adv >= 0 {
                    CLOCK_MS.fetch_add(adv as u64, StdOrdering::SeqCst);
                } else {
                    CLOCK_MS.fetch_sub((-adv) as u64, StdOrdering::SeqCst);
                }
                let start = STEP.fetch_add(1, StdOrdering::SeqCst);
                let before = state_u8(cb.current_state());
                let mut allowed = None;
                match op {
                    OpKind::Allow => allowed = Some(cb.should_allow_request()),
                    OpKind::Success => cb.record_success(),
                    OpKind::Failure => cb.record_failure(),
                    OpKind::Recovery => {
                        let _ = cb.estimated_recovery_time();
                    }
                    OpKind::State => {
                        let _ = cb.current_state();
                    }
                }
                let after = state_u8(cb.current_state());
                let end = STEP.fetch_add(1, StdOrdering::SeqCst);
                let clock = CLOCK_MS.load(StdOrdering::SeqCst);
                LOG.lock().unwrap().push(LogEntry { thread: ti, op, allowed, before, after, start, end, clock });
            }
        }));
    }
    for h in handles {
        h.join().unwrap();
    }
}

/// Post-run oracle over the recorded call intervals.
fn check_log(sc: &Scenario, log: &[LogEntry]) -> Vec<Violation> {
    let mut out = Vec::new();
    let mut by_end: Vec<&LogEntry> = log.iter().collect();
    by_end.sort_by_key(|e| e.end);
    // --- probes per half-open episode -------------------------------------------------------
    // An episode starts when some call observes the breaker leave Open for HalfOpen and ends when a
    // call observes Open or Closed after it. Admitted probes = should_allow_request()==true answers
    // whose interval lies entirely inside the episode window (calls overlapping the window edges are
    // not counted, so a violation holds for every linearisation consistent with the intervals).
    let mut i = 0;
    while i < by_end.len() {
        let e = by_end[i];
        let enters = e.after == 2 && e.before != 2;
        if !enters {
            i += 1;
            continue;
        }
        // the episode begins with the call that took the breaker out of Open
        let window_start = e.start;
        // ... and ends at the start of the first later call that observes a state other than HalfOpen
        let mut window_end = u64::MAX;
        // (`before`/`after` are samples taken around each call, so a success or failure report may
        // have ended the episode and a new one may have begun unnoticed: every such report that does
        // not lie entirely before this episode is treated as a possible end of it)
        // A failure report ends the episode (back to Open); success reports end it only when
        // `success_threshold` of them have been recorded (Closed). Every success report that does not
        // lie entirely before the episode may count towards that, so the episode may end at the start
        // of the success_threshold-th earliest of them.
        let mut success_starts: Vec<u64> = by_end.iter().filter(|x| x.op == OpKind::Success && !std::ptr::eq(**x, e) && x.end > window_start).map(|x| x.start).collect();
        success_starts.sort();
        let closing_success_start = success_starts.get(sc.success_threshold.saturating_sub(1) as usize).copied();
        for later in by_end.iter() {
            if std::ptr::eq(*later, e) || later.end <= window_start {
                continue;
            }
            let may_end = later.after != 2 || later.op == OpKind::Failure || (later.op == OpKind::Success && closing_success_start.map(|c| later.start >= c).unwrap_or(false));
            if may_end && later.start < window_end {
                window_end = later.start.max(window_start);
            }
        }
        // admitted requests whose whole interval lies inside the episode (calls overlapping its
        // edges are not counted, so the verdict holds for every linearisation of the intervals)
        // A request that sampled Closed right before it asked may have been admitted by the closed
        // circuit (the failure that opened it was still in flight): only requests that saw Open or
        // HalfOpen before they asked are certainly probes.
        let admitted = by_end.iter().filter(|x| x.op == OpKind::Allow && x.allowed == Some(true) && x.before != 0 && x.start >= window_start && x.end < window_end).count() as u32;
        // the request that performs the Open -> HalfOpen transition is tolerated on top of the budget
        if admitted > sc.half_open_max + 1 {
            out.push(Violation {
                signature: "C26/too-many-probes/should_allow_request/half-open-episode".into(),
                detail: format!("{admitted} requests admitted in one half-open episode; half_open_max_calls = {} (+1 for the request that triggered the transition)", sc.half_open_max),
            });
            break;
        }
        // skip to the end of this episode (always making progress)
        i += 1;
        while i < by_end.len() && by_end[i].start < window_end {
            i += 1;
        }
    }
    // --- opening only after N consecutive failures ------------------------------------------
    // Conservative check on intervals: when a call observes Closed -> Open (before==Closed, after==Open),
    // count the failures that *could* be part of the consecutive run: failures whose interval started
    // before this call ended and that are not certainly separated from it by a success recorded in
    // Closed state. If even that upper bound is below the threshold, no linearisation explains it.
    for e in &by_end {
        if e.before == 0 && e.after == 1 {
            // The breaker opened somewhere inside this call's interval. Any record_failure overlapping
            // the interval may be the one that opened it. For a candidate opener c, an upper bound on the
            // consecutive failures at its linearisation point is: failures that started before c ended
            // and are not *certainly* separated from c by a success (a success S separates failure f
            // from c in every linearisation iff f.end < S.start and S.end < c.start; any such success -
            // or the closing that must follow it - reset the failure count). The opening is unexplained
            // only if no candidate reaches the threshold.
            let successes: Vec<&&LogEntry> = by_end.iter().filter(|x| x.op == OpKind::Success).collect();
            let candidates: Vec<&&LogEntry> = by_end.iter().filter(|c| c.op == OpKind::Failure && c.start < e.end && c.end > e.start).collect();
            let best = candidates
                .iter()
                .map(|c| {
                    by_end
                        .iter()
                        .filter(|f| f.op == OpKind::Failure && f.start < c.end)
                        .filter(|f| std::ptr::eq::<LogEntry>(**f, **c) || !successes.iter().any(|s| f.end < s.start && s.end < c.start))
                        .count() as u32
                })
                .max()
                .unwrap_or(0);
            let possible = best;
            // a failure that may have been evaluated while the breaker was half-open re-opens it at once
            // (documented design); "may": it, or a call overlapping it, sampled the HalfOpen state
            let half_open_failure = candidates.iter().any(|c| c.before == 2 || c.after == 2 || by_end.iter().any(|x| (x.before == 2 || x.after == 2) && x.start < c.end && x.end > c.start));
            if possible < sc.failure_threshold && !half_open_failure {
                out.push(Violation {
                    signature: "C26/opened-early/record_failure/closed-to-open".into(),
                    detail: format!("breaker went from Closed to Open although no overlapping record_failure can be the {}-th consecutive failure (at most {possible} failures not separated from it by a success)", sc.failure_threshold),
                });
                break;
            }
        }
    }
    // sequential sanity (single thread executions are exact): with one thread the log is the truth
    if sc.threads.len() == 1 {
        let mut consecutive = 0u32;
        let mut state = 0u8;
        for e in &by_end {
            if e.op == OpKind::Failure && state == 0 {
                consecutive += 1;
            }
            if e.op == OpKind::Success && state == 0 {
                consecutive = 0;
            }
            if state == 0 && e.after == 1 && consecutive < sc.failure_threshold {
                out.push(Violation { signature: "C26/opened-early/record_failure/sequential".into(), detail: format!("opened after {consecutive} consecutive failures, threshold {}", sc.failure_threshold) });
                break;
            }
            if e.after != state {
                state = e.after;
                if state != 0 {
                    consecutive = 0;
                }
            }
        }
    }
    out
}

struct BreakerSim;

impl Engine for BreakerSim {
    fn name() -> &'static str {
        "breakersim"
    }

    fn properties() -> Vec<PropertyInfo> {
        vec![PropertyInfo {
            id: "C26",
            level: "exploration",
            rule: "one shuttle execution per run: thresholds and 2-3 threads x 3-8 calls (should_allow_request, record_success, record_failure, estimated_recovery_time, current_state) drawn from the run seed, the simulated wall clock advanced by 0..2x recovery (or stepped backwards in clock-fault runs) before each call; every atomic access of the real breaker source is a scheduling point of shuttle's seeded random or PCT (depth 2-4) scheduler. Non-trivial = two threads were simultaneously inside should_allow_request while the state was Open and the recovery time had elapsed; distinct by hash of (parameters, observed call-interval log).",
            quick_runs: 120_000,
            thorough_runs: 3_000_000,
            real_components: &["crates/sierradb-cluster/src/circuit_breaker.rs (the source file itself, compiled by build.rs against shuttle atomics)"],
            stub_components: &["std::sync::atomic -> shuttle::sync::atomic", "SystemTime -> simulated millisecond clock"],
            assumptions: &["sequentially consistent exploration: shuttle interleaves at atomic accesses but does not model weak memory orderings", "the probe bound tolerates the request that triggered the Open->HalfOpen transition as the first probe"],
        }]
    }

    fn plan(_prop: &str, _tier: Tier, run_seed: u64) -> Value {
        let mut rng = Rng::new(run_seed);
        let sched = if rng.chance(1, 2) { "random" } else { "pct" };
        json!({
            "sched": sched,
            "depth": 2 + rng.below(3),
            "sched_seed": rng.next_u64() >> 8,
            "workload_seed": rng.next_u64() >> 8,
            "threads": 2 + rng.below(2),
            "max_ops": 3 + rng.below(6),
            "clock_backwards": rng.chance(1, 4),
        })
    }

    fn execute(_prop: &str, plan: &Value) -> RunOutcome {
        let sc = scenario_from_plan(plan);
        let sched_seed = plan["sched_seed"].as_u64().unwrap_or(1);
        let depth = plan["depth"].as_u64().unwrap_or(2) as usize;
        let mut cfg = shuttle::Config::new();
        cfg.failure_persistence = shuttle::FailurePersistence::None;
        let sc_ref = std::sync::Arc::new(sc);
        let sc2 = sc_ref.clone();
        let is_pct = plan["sched"].as_str() == Some("pct");
        let result = std::panic::catch_unwind(std::panic::AssertUnwindSafe(|| {
            if is_pct {
                let runner = shuttle::Runner::new(shuttle::scheduler::PctScheduler::new_from_seed(sched_seed, depth, 1), cfg);
                runner.run(move || run_execution(&sc2));
            } else {
                let runner = shuttle::Runner::new(shuttle::scheduler::RandomScheduler::new_from_seed(sched_seed, 1), cfg);
                runner.run(move || run_execution(&sc2));
            }
        }));
        let log: Vec<LogEntry> = LOG.lock().unwrap_or_else(|e| e.into_inner()).clone();
        if std::env::var_os("VERIF_TRACE").is_some() {
            eprintln!("params: threshold {} recovery {}ms half_open_max {} success_threshold {}", sc_ref.failure_threshold, sc_ref.recovery_ms, sc_ref.half_open_max, sc_ref.success_threshold);
            let mut l: Vec<&LogEntry> = log.iter().collect();
            l.sort_by_key(|e| e.start);
            for e in l {
                eprintln!("t{} {:?} allowed={:?} state {}->{} steps [{},{}] clock {}", e.thread, e.op, e.allowed, e.before, e.after, e.start, e.end, e.clock);
            }
        }
        let mut out = RunOutcome::default();
        out.evaluations = log.len().max(1) as u64;
        out.steps = STEP.load(StdOrdering::SeqCst);
        out.sim_nanos = (CLOCK_MS.load(StdOrdering::SeqCst).saturating_sub(1_000_000)) * 1_000_000;
        let mut chain = Chain::new();
        for e in &log {
            chain.push_u64(e.thread as u64);
            chain.push_u64(e.start);
            chain.push_u64(e.end);
            chain.push_u64(e.before as u64 * 3 + e.after as u64);
            chain.push_u64(e.allowed.map(|a| a as u64 + 1).unwrap_or(0));
        }
        out.event_hash = chain.0;
        out.schedule_hash = chain.0;
        out.state_hash = fnv(format!("{}/{}/{}/{}", sc_ref.failure_threshold, sc_ref.recovery_ms, sc_ref.half_open_max, sc_ref.success_threshold).as_bytes());
        let mut faults = BTreeMap::new();
        if plan["clock_backwards"].as_bool() == Some(true) {
            faults.insert("wall_clock_stepped_backwards_config".to_string(), 1);
        }
        out.faults = faults;
        // probe: two should_allow_request calls overlapping while the breaker was Open
        let allows: Vec<&LogEntry> = log.iter().filter(|e| e.op == OpKind::Allow && e.before == 1).collect();
        let mut racing = false;
        for (i, a) in allows.iter().enumerate() {
            for b in allows.iter().skip(i + 1) {
                if a.thread != b.thread && a.start < b.end && b.start < a.end && a.allowed == Some(true) && b.allowed == Some(true) {
                    racing = true;
                }
            }
        }
        if racing {
            out.probes.insert("two_threads_admitted_by_open_to_half_open_race".into(), 1);
            out.nontrivial = Some(chain.0);
            RACE_PROBE.fetch_add(1, StdOrdering::Relaxed);
        }
        match result {
            Ok(()) => out.violations = check_log(&sc_ref, &log),
            Err(p) => {
                let msg = if let Some(s) = p.downcast_ref::<&str>() { s.to_string() } else if let Some(s) = p.downcast_ref::<String>() { s.clone() } else { "panic".to_string() };
                let kind = if msg.contains("overflow") { "arithmetic-overflow" } else if msg.contains("deadlock") { "deadlock" } else { "other" };
                out.violations.push(Violation { signature: format!("C26/panic/circuit_breaker/{kind}"), detail: msg.lines().next().unwrap_or("").chars().take(300).collect() });
            }
        }
        out.sample = Some(json!({
            "params": {"failure_threshold": sc_ref.failure_threshold, "recovery_ms": sc_ref.recovery_ms, "half_open_max_calls": sc_ref.half_open_max, "success_threshold": sc_ref.success_threshold},
            "scheduler": plan["sched"], "threads": sc_ref.threads.iter().map(|t| t.iter().map(|(a, o)| format!("+{a}ms {o:?}")).collect::<Vec<_>>()).collect::<Vec<_>>(),
            "log": log.iter().take(12).map(|e| format!("t{} {:?} allowed={:?} {}->{} [{},{}]", e.thread, e.op, e.allowed, e.before, e.after, e.start, e.end)).collect::<Vec<_>>(),
        }));
        out
    }

    /// shuttle has no shrinker: re-search at reduced sizes (fewer threads / calls) for the same signature.
    fn shrink(prop: &str, plan: &Value, budget: &mut u32, fails: &mut dyn FnMut(&Value) -> bool) -> Value {
        let _ = prop;
        let mut best = plan.clone();
        for threads in [2u64] {
            for max_ops in [3u64, 4, 5] {
                if max_ops >= best["max_ops"].as_u64().unwrap_or(9) && threads >= best["threads"].as_u64().unwrap_or(3) {
                    continue;
                }
                let mut rng = Rng::new(plan["sched_seed"].as_u64().unwrap_or(1) ^ max_ops);
                let tries = (*budget / 3).min(400);
                for _ in 0..tries {
                    if *budget == 0 {
                        return best;
                    }
                    *budget -= 1;
                    let mut cand = plan.clone();
                    cand["threads"] = json!(threads);
                    cand["max_ops"] = json!(max_ops);
                    cand["sched_seed"] = json!(rng.next_u64() >> 8);
                    cand["workload_seed"] = json!(rng.next_u64() >> 8);
                    if fails(&cand) {
                        best = cand;
                        return best;
                    }
                }
            }
        }
        best
    }

    fn init_process() {
        // shuttle prints the failing schedule through the panic hook; keep worker output quiet
        std::panic::set_hook(Box::new(|_| {}));
    }
}

fn main() {
    simcore::runner::main::<BreakerSim>()
}
