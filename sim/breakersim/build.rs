//! Copies the real circuit-breaker source out of /repo (minus its test module) so that it can be
//! compiled inside a module whose `std` is a shim (shuttle atomics + simulated SystemTime).
use std::path::PathBuf;

fn main() {
    let src = std::env::var("VERIF_REPO").unwrap_or_else(|_| "/repo".to_string());
    let path = PathBuf::from(src).join("crates/sierradb-cluster/src/circuit_breaker.rs");
    println!("cargo:rerun-if-changed={}", path.display());
    println!("cargo:rerun-if-env-changed=VERIF_REPO");
    let text = std::fs::read_to_string(&path).unwrap_or_else(|e| panic!("cannot read {}: {e}", path.display()));
    let body = match text.find("#[cfg(test)]") {
        Some(pos) => &text[..pos],
        None => &text[..],
    };
    // hook K6 swaps the clock types behind feature `verif`: this crate supplies its own clock
    // through the `std` shim, so take the guard-off variant (drop `#[cfg(feature = "verif")]`
    // items, keep `#[cfg(not(feature = "verif"))]` ones without the attribute)
    let mut cleaned = String::new();
    let mut skipping = false;
    for line in body.lines() {
        let t = line.trim();
        if skipping {
            if t.ends_with(';') {
                skipping = false;
            }
            continue;
        }
        if t == "#[cfg(feature = \"verif\")]" {
            skipping = true;
            continue;
        }
        if t == "#[cfg(not(feature = \"verif\"))]" {
            continue;
        }
        cleaned.push_str(line);
        cleaned.push('\n');
    }
    let body = cleaned.as_str();
    // the file must stay self-contained: only std imports
    for line in body.lines() {
        let l = line.trim_start();
        if l.starts_with("use ") && !l.starts_with("use std") {
            panic!("circuit_breaker.rs is no longer self-contained (found `{l}`); breakersim cannot compile it against the shim");
        }
    }
    let out = PathBuf::from(std::env::var("OUT_DIR").unwrap()).join("circuit_breaker.rs");
    std::fs::write(out, body).unwrap();
}
