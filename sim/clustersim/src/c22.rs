//! C22 — the RESP API of a single node behaves like the event-store model.
//! One real ClusterActor (N = 1, rf = 1) with the real `sierradb_server::server::Server` serving a
//! client connection over an in-memory duplex pipe (hook S1). The simulator is the client: it
//! encodes commands as RESP3 arrays, delivers the bytes in PRNG chunks (partial frames) and
//! pipelines, decodes the replies and compares every answer with a reference event-store model.
//! Invalid requests must produce an error reply and leave the connection usable.

use std::collections::BTreeMap;
use std::pin::Pin;
use std::sync::Arc;
use std::task::{Context, Poll};

use serde::{Deserialize, Serialize};
use serde_json::{Value, json};
use sierradb::id::{NAMESPACE_PARTITION_KEY, uuid_to_partition_hash};
use sierradb_server::server::Server;
use simcore::runner::Tier;
use simcore::{Chain, Rng, RunOutcome, Violation};
use tokio::io::{AsyncRead, AsyncWrite, DuplexStream, ReadBuf};
use tokio_util::sync::CancellationToken;
use uuid::Uuid;

use crate::node::{Cluster, ClusterCfg, NetCfg};
use crate::util::make_id;
use crate::{driver, sim};

#[derive(Clone, Debug, Serialize, Deserialize, PartialEq)]
pub enum Expect {
    None,
    Any,
    Exists,
    Empty,
    /// the stream's current version + delta - 1 (delta 1 = exactly right; 0/2 = wrong)
    Exact { delta: u64 },
}

#[derive(Clone, Debug, Serialize, Deserialize, PartialEq)]
pub struct Ev {
    pub stream: usize,
    pub expect: Expect,
    pub with_id: bool,
    pub timestamp: Option<u64>,
    pub payload: usize,
}

#[derive(Clone, Debug, Serialize, Deserialize, PartialEq)]
#[serde(tag = "op")]
pub enum Op {
    /// `then`: a read command pipelined behind the append in the same write (0 none, 1 ESVER,
    /// 2 EPSEQ, 3 ESCAN - +): the acknowledged append must be visible to it
    Append { ev: Ev, explicit_key: bool, #[serde(default)] then: u8 },
    MAppend { key: usize, events: Vec<Ev> },
    Get { which: u64, known: bool },
    Scan { stream: usize, start: Option<u64>, end: Option<u64>, count: Option<u64>, explicit_key: bool },
    PScan { key: usize, by_id: bool, start: Option<u64>, end: Option<u64>, count: Option<u64> },
    SVer { stream: usize, explicit_key: bool },
    PSeq { key: usize, by_id: bool },
    /// EPSUB <partition> FROM <from> WINDOW <window> on the partition of key `key`
    PSub { key: usize, from: u64, window: u64 },
    /// ESUB <stream> [PARTITION_KEY k] FROM <from> WINDOW <window>
    SSub { stream: usize, from: u64, window: u64 },
    /// EACK of everything received so far on subscription `sub` (or of an unknown subscription)
    Ack { sub: usize, unknown: bool },
    Ping,
    /// a request that must be rejected with an error reply
    Invalid { kind: u64 },
}

#[derive(Clone, Debug, Serialize, Deserialize)]
pub struct C22Plan {
    pub partitions: u16,
    pub buckets: u16,
    pub streams: usize,
    pub strict: bool,
    pub ops: Vec<Op>,
    /// chunking / pipelining choices
    pub seed: u64,
}

fn gen_ev(rng: &mut Rng, streams: usize) -> Ev {
    let expect = match rng.below(8) {
        0 => Expect::None,
        1 => Expect::Any,
        2 => Expect::Exists,
        3 => Expect::Empty,
        4 => Expect::Exact { delta: 0 },
        5 => Expect::Exact { delta: 2 },
        _ => Expect::Exact { delta: 1 },
    };
    let timestamp = match rng.below(6) {
        0 => Some(0),
        1 => Some(1_700_000_000_000),
        2 => Some(*rng.pick(&[((1u64 << 63) - 1) / 1_000_000, ((1u64 << 63) - 1) / 1_000_000 + 1, u64::MAX / 1_000_000])),
        3 => Some(u64::MAX / 1_000_000 + 1),
        _ => None,
    };
    Ev { stream: rng.usize_below(streams), expect, with_id: rng.chance(2, 3), timestamp, payload: rng.usize_below(40) }
}

pub fn plan(tier: Tier, seed: u64) -> Value {
    let mut rng = Rng::new(seed);
    let partitions = *rng.pick(&[1u16, 2, 8, 32]);
    let buckets = *rng.pick(&[1u16, 2, 4]);
    let streams = 1 + rng.usize_below(5);
    let strict = rng.chance(1, 3);
    let nops = 8 + rng.usize_below(match tier { Tier::Quick => 30, Tier::Thorough => 70 });
    let mut ops = Vec::new();
    for _ in 0..nops {
        let op = match rng.weighted(&[8, 6, 4, 5, 4, 2, 2, 1, 3, 1, 1, 2]) {
            0 => Op::Append { ev: gen_ev(&mut rng, streams), explicit_key: rng.chance(1, 2), then: if rng.chance(1, 3) { 1 + rng.below(3) as u8 } else { 0 } },
            1 => {
                let n = 1 + rng.usize_below(4);
                Op::MAppend { key: rng.usize_below(2), events: (0..n).map(|_| gen_ev(&mut rng, streams)).collect() }
            }
            2 => Op::Get { which: rng.below(64), known: rng.chance(4, 5) },
            3 => Op::Scan {
                stream: rng.usize_below(streams),
                start: if rng.chance(1, 3) { None } else { Some(rng.below(8)) },
                end: if rng.chance(1, 2) { None } else { Some(rng.below(10)) },
                count: if rng.chance(1, 2) { None } else { Some(*rng.pick(&[0u64, 1, 2, 3, 100])) },
                explicit_key: rng.chance(1, 2),
            },
            4 => Op::PScan {
                key: rng.usize_below(2),
                by_id: rng.chance(1, 2),
                start: if rng.chance(1, 3) { None } else { Some(rng.below(12)) },
                end: if rng.chance(1, 2) { None } else { Some(rng.below(14)) },
                count: if rng.chance(1, 2) { None } else { Some(*rng.pick(&[0u64, 1, 2, 3, 100])) },
            },
            5 => Op::SVer { stream: rng.usize_below(streams), explicit_key: rng.chance(1, 2) },
            6 => Op::PSeq { key: rng.usize_below(2), by_id: rng.chance(1, 2) },
            7 => Op::Ping,
            9 => Op::PSub { key: rng.usize_below(2), from: rng.below(4), window: *rng.pick(&[1u64, 2, 1000]) },
            10 => Op::SSub { stream: rng.usize_below(streams), from: rng.below(3), window: *rng.pick(&[1u64, 3, 1000]) },
            11 => Op::Ack { sub: rng.usize_below(4), unknown: rng.chance(1, 8) },
            _ => Op::Invalid { kind: rng.below(15) },
        };
        ops.push(op);
    }
    serde_json::to_value(C22Plan { partitions, buckets, streams, strict, ops, seed: rng.next_u64() >> 8 }).unwrap()
}

thread_local! {
    static PARTIAL_FRAMES: std::cell::Cell<u64> = const { std::cell::Cell::new(0) };
}

// ---------------------------------------------------------------------------------------------
// RESP3

#[derive(Clone, Debug, PartialEq)]
enum V {
    Null,
    Int(i64),
    Bool(bool),
    Double(String),
    Str(Vec<u8>),
    Err(String),
    Arr(Vec<V>),
    Map(Vec<(V, V)>),
    Push(Vec<V>),
}

impl V {
    fn get(&self, key: &str) -> Option<&V> {
        match self {
            V::Map(m) => m.iter().find(|(k, _)| matches!(k, V::Str(s) if s == key.as_bytes())).map(|(_, v)| v),
            _ => None,
        }
    }
    fn int(&self) -> Option<i64> {
        match self {
            V::Int(i) => Some(*i),
            _ => None,
        }
    }
    fn text(&self) -> Option<String> {
        match self {
            V::Str(s) => Some(String::from_utf8_lossy(s).to_string()),
            _ => None,
        }
    }
    fn is_err(&self) -> bool {
        matches!(self, V::Err(_))
    }
}

fn encode_cmd(args: &[Vec<u8>]) -> Vec<u8> {
    let mut out = format!("*{}\r\n", args.len()).into_bytes();
    for a in args {
        out.extend_from_slice(format!("${}\r\n", a.len()).as_bytes());
        out.extend_from_slice(a);
        out.extend_from_slice(b"\r\n");
    }
    out
}

/// Decodes one RESP3 value from the front of `buf`; None if incomplete.
fn decode(buf: &[u8]) -> Result<Option<(V, usize)>, String> {
    fn line(buf: &[u8]) -> Option<(&[u8], usize)> {
        let pos = buf.windows(2).position(|w| w == b"\r\n")?;
        Some((&buf[..pos], pos + 2))
    }
    if buf.is_empty() {
        return Ok(None);
    }
    let Some((l, used)) = line(&buf[1..]) else { return Ok(None) };
    let used = used + 1;
    let text = String::from_utf8_lossy(l).to_string();
    let num = || text.parse::<i64>().map_err(|_| format!("bad length {text:?}"));
    match buf[0] {
        b'+' => Ok(Some((V::Str(l.to_vec()), used))),
        b'-' => Ok(Some((V::Err(text), used))),
        b':' => Ok(Some((V::Int(num()?), used))),
        b'_' => Ok(Some((V::Null, used))),
        b'#' => Ok(Some((V::Bool(text == "t"), used))),
        b',' => Ok(Some((V::Double(text), used))),
        b'(' => Ok(Some((V::Str(l.to_vec()), used))),
        b'$' | b'!' | b'=' => {
            let n = num()?;
            if n < 0 {
                return Ok(Some((V::Null, used)));
            }
            let n = n as usize;
            if buf.len() < used + n + 2 {
                return Ok(None);
            }
            let data = buf[used..used + n].to_vec();
            let v = if buf[0] == b'!' { V::Err(String::from_utf8_lossy(&data).to_string()) } else { V::Str(data) };
            Ok(Some((v, used + n + 2)))
        }
        b'*' | b'>' | b'~' => {
            let n = num()?;
            if n < 0 {
                return Ok(Some((V::Null, used)));
            }
            let mut items = Vec::new();
            let mut at = used;
            for _ in 0..n {
                match decode(&buf[at..])? {
                    Some((v, u)) => {
                        items.push(v);
                        at += u;
                    }
                    None => return Ok(None),
                }
            }
            Ok(Some((if buf[0] == b'>' { V::Push(items) } else { V::Arr(items) }, at)))
        }
        b'%' | b'|' => {
            let n = num()?;
            let mut items = Vec::new();
            let mut at = used;
            for _ in 0..n {
                let Some((k, u)) = decode(&buf[at..])? else { return Ok(None) };
                at += u;
                let Some((v, u)) = decode(&buf[at..])? else { return Ok(None) };
                at += u;
                items.push((k, v));
            }
            Ok(Some((V::Map(items), at)))
        }
        other => Err(format!("unknown RESP3 type byte {:?}", other as char)),
    }
}

// ---------------------------------------------------------------------------------------------
// model

#[derive(Clone, Debug)]
struct MEvent {
    id: Uuid,
    partition: u16,
    seq: u64,
    stream: String,
    version: u64,
    name: String,
    payload: Vec<u8>,
    metadata: Vec<u8>,
    timestamp_ms: Option<u64>,
}

#[derive(Default)]
struct Model {
    events: Vec<MEvent>,
    next_seq: BTreeMap<u16, u64>,
    /// (bucket, stream) -> next version: a bucket's stream index is keyed by the stream id alone
    next_ver: BTreeMap<(u16, String), u64>,
    /// (bucket, stream) -> partition key it was first written with (a stream has one key)
    stream_key: BTreeMap<(u16, String), Uuid>,
}

struct Client {
    stream: DuplexStream,
    inbuf: Vec<u8>,
    /// push frames (subscription traffic) met while waiting for replies
    pushes: Vec<V>,
}

impl Client {
    fn write(&mut self, bytes: &[u8]) -> bool {
        let waker = futures::task::noop_waker();
        let mut cx = Context::from_waker(&waker);
        let mut at = 0;
        while at < bytes.len() {
            match Pin::new(&mut self.stream).poll_write(&mut cx, &bytes[at..]) {
                Poll::Ready(Ok(0)) | Poll::Ready(Err(_)) => return false,
                Poll::Ready(Ok(n)) => at += n,
                Poll::Pending => return false,
            }
        }
        true
    }

    /// reads what is available; Err = the server closed the connection
    fn read_available(&mut self) -> Result<(), ()> {
        let waker = futures::task::noop_waker();
        let mut cx = Context::from_waker(&waker);
        loop {
            let mut tmp = [0u8; 4096];
            let mut rb = ReadBuf::new(&mut tmp);
            match Pin::new(&mut self.stream).poll_read(&mut cx, &mut rb) {
                Poll::Ready(Ok(())) => {
                    if rb.filled().is_empty() {
                        return Err(());
                    }
                    self.inbuf.extend_from_slice(rb.filled());
                }
                Poll::Ready(Err(_)) => return Err(()),
                Poll::Pending => return Ok(()),
            }
        }
    }
}

pub fn execute(plan_v: &Value) -> RunOutcome {
    let plan: C22Plan = match serde_json::from_value(plan_v.clone()) {
        Ok(p) => p,
        Err(e) => {
            let mut out = RunOutcome::default();
            out.violations.push(Violation { signature: "C22/harness/bad-plan/parse".into(), detail: e.to_string() });
            return out;
        }
    };
    match crate::util::catch(|| run(plan)) {
        Ok(out) => out,
        Err(panic) => {
            let mut out = RunOutcome::default();
            out.evaluations = 1;
            kameo::remote::sim::install(None);
            out.violations.push(Violation { signature: "C22/harness/panic/run".into(), detail: panic });
            out
        }
    }
}

fn run(plan: C22Plan) -> RunOutcome {
    let simh = sim::sim();
    simh.reset_clock();
    driver::reset_counters();
    futures::executor::block_on(kameo::remote::sim::reset_run(1000));
    let cfg = ClusterCfg { n: 1, buckets: plan.buckets, partitions: plan.partitions, rf: 1, hb_interval_ms: 1000, hb_timeout_ms: 3000, buffer_size: 16, buffer_timeout_ms: 8_000, catchup_timeout_ms: 1_000 };
    let net = NetCfg { seed: plan.seed, loss_pct: 0, dup_pct: 0, max_delay_ms: 0, straggler_pct: 0, straggler_ms: 0 };
    let mut cluster = Cluster::new(cfg, net, "c22");
    let mut out = RunOutcome::default();
    cluster.start_node(0);
    cluster.run_until(20);

    let actor = cluster.nodes[0].actor.clone().unwrap();
    let db = cluster.nodes[0].db.clone().unwrap();
    let caches = db.reader_pool().caches().clone();
    let server = Arc::new(Server::new(actor, caches, plan.partitions, 1 << 20, plan.strict, CancellationToken::new()));
    let (client_end, server_end) = tokio::io::duplex(1 << 20);
    let server_done: Arc<std::sync::Mutex<Option<String>>> = Arc::new(std::sync::Mutex::new(None));
    {
        let server = server.clone();
        let done = server_done.clone();
        cluster.spawn_on(0, async move {
            let res = server.verif_serve(server_end).await;
            *done.lock().unwrap() = Some(format!("{res:?}"));
        });
    }
    let mut client = Client { stream: client_end, inbuf: Vec::new(), pushes: Vec::new() };
    let mut model = Model::default();
    let mut rng = Rng::new(plan.seed ^ 0x2222);
    let stream_names: Vec<String> = (0..plan.streams).map(|i| format!("acct-{i}")).collect();
    let keys: Vec<Uuid> = (0..2).map(|k| Uuid::from_u128(0x4000_0000_0000_4000_8000_0000_0000_0000u128 | ((plan.seed as u128 & 0xffff) << 16) | k as u128)).collect();
    let default_key = |stream: &str| Uuid::new_v5(&NAMESPACE_PARTITION_KEY, stream.as_bytes());
    // every stream has one home partition key (a stream lives under one key): stream 0 the default
    // key derived from its name, streams 1,2 the first explicit key, streams 3,4 the second
    let home_is_explicit = |i: usize| i >= 1;
    let home_key = |i: usize| -> Uuid { if i == 0 { default_key(&stream_names[0]) } else { keys[((i - 1) / 2) % 2] } };
    let violations: std::cell::RefCell<Vec<Violation>> = std::cell::RefCell::new(Vec::new());
    let report = |clause: &str, shape: &str, detail: String| {
        let sig = format!("C22/{clause}/resp/{shape}");
        let mut v = violations.borrow_mut();
        if !v.iter().any(|x| x.signature == sig) {
            v.push(Violation { signature: sig, detail });
        }
    };
    let mut sched = Chain::new();
    let mut probes: BTreeMap<String, u64> = BTreeMap::new();

    // one request/response exchange; bytes are delivered in PRNG chunks
    let mut exchange_with = |cluster: &mut Cluster, client: &mut Client, rng: &mut Rng, args: Vec<Vec<u8>>, follow: Option<Vec<Vec<u8>>>| -> Result<V, String> {
        let mut bytes = encode_cmd(&args);
        if let Some(f) = &follow {
            bytes.extend_from_slice(&encode_cmd(f));
        }
        let cuts = match rng.below(4) {
            0 => vec![rng.usize_below(bytes.len().max(1))],
            1 => vec![rng.usize_below(bytes.len().max(1)), rng.usize_below(bytes.len().max(1))],
            _ => vec![],
        };
        let mut points: Vec<usize> = cuts.into_iter().filter(|c| *c > 0 && *c < bytes.len()).collect();
        points.sort();
        points.dedup();
        if !points.is_empty() {
            PARTIAL_FRAMES.with(|c| c.set(c.get() + 1));
        }
        let mut at = 0;
        for p in points.into_iter().chain(std::iter::once(bytes.len())) {
            if !client.write(&bytes[at..p]) {
                return Err("connection closed while sending".into());
            }
            at = p;
            cluster.settle();
        }
        let start = std::time::Instant::now();
        let mut rounds = 0;
        loop {
            cluster.settle();
            rounds += 1;
            if rounds == 3 {
                // a parked confirmation update (hook K7) has been delayed long enough
                sim::hold_confirmation_updates(false);
            }
            let closed = client.read_available().is_err();
            match decode(&client.inbuf) {
                Ok(Some((v, used))) => {
                    client.inbuf.drain(..used);
                    if matches!(v, V::Push(_)) {
                        client.pushes.push(v);
                        continue;
                    }
                    return Ok(v);
                }
                Ok(None) => {}
                Err(e) => return Err(format!("undecodable reply: {e}")),
            }
            if closed {
                return Err("connection closed by the server".into());
            }
            if start.elapsed().as_secs() > 90 {
                return Err("no reply".into());
            }
        }
    };
    // the next reply on the connection (of a pipelined command)
    let read_reply = |cluster: &mut Cluster, client: &mut Client| -> Result<V, String> {
        let start = std::time::Instant::now();
        loop {
            let closed = client.read_available().is_err();
            match decode(&client.inbuf) {
                Ok(Some((v, used))) => {
                    client.inbuf.drain(..used);
                    if matches!(v, V::Push(_)) {
                        client.pushes.push(v);
                        continue;
                    }
                    return Ok(v);
                }
                Ok(None) => {}
                Err(e) => return Err(format!("undecodable reply: {e}")),
            }
            if closed {
                return Err("connection closed by the server".into());
            }
            if start.elapsed().as_secs() > 90 {
                return Err("no reply".into());
            }
            cluster.settle();
        }
    };

    let mut known_ids: Vec<Uuid> = Vec::new();
    let mut subs: Vec<RSub> = Vec::new();
    for (opi, op) in plan.ops.iter().enumerate() {
        sched.push_str(&format!("{op:?}"));
        out.steps += 1;
        out.evaluations += 1;
        if cluster.trace {
            eprintln!("op {opi} {op:?}");
        }
        let mut conn_error: Option<String> = None;
        sim::hold_confirmation_updates(false);
        let payload_of = |n: usize| -> Vec<u8> { (0..n).map(|i| b'a' + (i % 26) as u8).collect() };
        // builds the argument list of one event and the model's verdict for it
        let buckets = plan.buckets;
        let ev_args = |ev: &Ev, partition: u16, model: &Model, pending: &BTreeMap<(u16, String), u64>, rng: &mut Rng, hash: u16| -> (Vec<Vec<u8>>, bool, Option<Uuid>, u64, bool) {
            let sname = &stream_names[ev.stream];
            let mut a: Vec<Vec<u8>> = vec![sname.clone().into_bytes(), b"Evt".to_vec()];
            let key = (partition % buckets, sname.clone());
            let next = pending.get(&key).copied().unwrap_or_else(|| model.next_ver.get(&key).copied().unwrap_or(0));
            let id = if ev.with_id { Some(make_id(hash, ((rng.next_u64() as u128) << 64) | rng.next_u64() as u128)) } else { None };
            if let Some(id) = id {
                a.push(b"EVENT_ID".to_vec());
                a.push(id.to_string().into_bytes());
            }
            let mut ok = true;
            let mut strict_reject = false;
            match &ev.expect {
                Expect::None => {
                    strict_reject = true;
                }
                Expect::Any => {
                    a.push(b"EXPECTED_VERSION".to_vec());
                    a.push(b"any".to_vec());
                    strict_reject = true;
                }
                Expect::Exists => {
                    a.push(b"EXPECTED_VERSION".to_vec());
                    a.push(b"exists".to_vec());
                    ok = next > 0;
                    strict_reject = true;
                }
                Expect::Empty => {
                    a.push(b"EXPECTED_VERSION".to_vec());
                    a.push(b"empty".to_vec());
                    ok = next == 0;
                }
                Expect::Exact { delta } => {
                    // current version = next - 1; the request names next - 1 + (delta - 1)
                    let named = (next + delta).checked_sub(2);
                    a.push(b"EXPECTED_VERSION".to_vec());
                    match named {
                        Some(v) => {
                            a.push(v.to_string().into_bytes());
                            ok = next > 0 && v == next - 1;
                        }
                        None => {
                            a.push(b"empty".to_vec());
                            ok = next == 0;
                        }
                    }
                }
            }
            if let Some(ts) = ev.timestamp {
                a.push(b"TIMESTAMP".to_vec());
                a.push(ts.to_string().into_bytes());
                // stored in nanoseconds, and the store keeps the top bit for the record kind
                match ts.checked_mul(1_000_000) {
                    Some(ns) if ns < (1u64 << 63) => {}
                    _ => ok = false,
                }
            }
            if ev.payload > 0 {
                a.push(b"PAYLOAD".to_vec());
                a.push(payload_of(ev.payload));
            }
            (a, ok, id, next, strict_reject)
        };
        match op {
            Op::Ping => match exchange_with(&mut cluster, &mut client, &mut rng, vec![b"PING".to_vec()], None) {
                Ok(v) => {
                    if v.is_err() {
                        report("ping-rejected", "PING", format!("PING answered {v:?}"));
                    }
                }
                Err(e) => conn_error = Some(e),
            },
            Op::Append { ev, explicit_key, then } => {
                let sname = stream_names[ev.stream].clone();
                let pk = home_key(ev.stream);
                let send_key = *explicit_key || home_is_explicit(ev.stream);
                let hash = uuid_to_partition_hash(pk);
                let partition = hash % plan.partitions;
                let (mut args, mut ok, id, next_ver, strict_reject) = ev_args(ev, partition, &model, &BTreeMap::new(), &mut rng, hash);
                let mut full = vec![b"EAPPEND".to_vec()];
                full.append(&mut args);
                if send_key {
                    full.push(b"PARTITION_KEY".to_vec());
                    full.push(pk.to_string().into_bytes());
                }
                if plan.strict && strict_reject {
                    ok = false;
                }
                // a stream lives under the partition key it was first written with
                if let Some(first) = model.stream_key.get(&(partition % plan.buckets, sname.clone())) {
                    if *first != pk {
                        ok = false;
                    }
                }
                let follow: Option<Vec<Vec<u8>>> = match then {
                    1 => {
                        let mut a = vec![b"ESVER".to_vec(), sname.clone().into_bytes()];
                        if send_key {
                            a.push(b"PARTITION_KEY".to_vec());
                            a.push(pk.to_string().into_bytes());
                        }
                        Some(a)
                    }
                    2 => Some(vec![b"EPSEQ".to_vec(), pk.to_string().into_bytes()]),
                    3 => {
                        let mut a = vec![b"ESCAN".to_vec(), sname.clone().into_bytes(), b"-".to_vec(), b"+".to_vec()];
                        if send_key {
                            a.push(b"PARTITION_KEY".to_vec());
                            a.push(pk.to_string().into_bytes());
                        }
                        Some(a)
                    }
                    _ => None,
                };
                if follow.is_some() && rng.chance(1, 2) {
                    // the confirmation actor's mailbox is slow: the watermark update of this append
                    // is not processed at once
                    sim::hold_confirmation_updates(true);
                    *probes.entry("confirmation_update_delayed".into()).or_insert(0) += 1;
                }
                match exchange_with(&mut cluster, &mut client, &mut rng, full, follow.clone()) {
                    Ok(v) => {
                        if ok {
                            if v.is_err() {
                                report("valid-append-rejected", "EAPPEND", format!("op {opi}: EAPPEND to {sname} (next version {next_ver}, expectation {:?}) answered {v:?}", ev.expect));
                            } else {
                                let seq = model.next_seq.get(&partition).copied().unwrap_or(0);
                                let got_seq = v.get("partition_sequence").and_then(|x| x.int());
                                let got_ver = v.get("stream_version").and_then(|x| x.int());
                                let got_pid = v.get("partition_id").and_then(|x| x.int());
                                if got_seq != Some(seq as i64) || got_ver != Some(next_ver as i64) || got_pid != Some(partition as i64) {
                                    report("append-reply-wrong", "EAPPEND", format!("op {opi}: EAPPEND to {sname} answered partition {got_pid:?} sequence {got_seq:?} version {got_ver:?}; the model says partition {partition} sequence {seq} version {next_ver}"));
                                }
                                let got_id = v.get("event_id").and_then(|x| x.text()).and_then(|s| Uuid::parse_str(&s).ok());
                                if let (Some(want), Some(got)) = (id, got_id) {
                                    if want != got {
                                        report("append-reply-wrong", "EAPPEND", format!("op {opi}: EAPPEND echoed event id {got} for {want}"));
                                    }
                                }
                                if let (Some(ts), Some(got)) = (ev.timestamp, v.get("timestamp").and_then(|x| x.int())) {
                                    if got as u64 != ts {
                                        report("timestamp-changed", "EAPPEND", format!("op {opi}: EAPPEND with TIMESTAMP {ts} answered timestamp {got}"));
                                    }
                                }
                                if let Some(eid) = got_id {
                                    model.events.push(MEvent { id: eid, partition, seq, stream: sname.clone(), version: next_ver, name: "Evt".into(), payload: payload_of(ev.payload), metadata: vec![], timestamp_ms: ev.timestamp });
                                    known_ids.push(eid);
                                    model.next_seq.insert(partition, seq + 1);
                                    model.next_ver.insert((partition % plan.buckets, sname.clone()), next_ver + 1);
                                    model.stream_key.entry((partition % plan.buckets, sname.clone())).or_insert(pk);
                                }
                            }
                        } else if !v.is_err() {
                            report("invalid-append-accepted", "EAPPEND", format!("op {opi}: EAPPEND to {sname} (next version {next_ver}, expectation {:?}, timestamp {:?}, strict {}) was accepted: {v:?}", ev.expect, ev.timestamp, plan.strict));
                            // keep the model in step with what the server did
                            conn_error = Some("model diverged".into());
                        } else {
                            *probes.entry("append_rejected_as_expected".into()).or_insert(0) += 1;
                        }
                    }
                    Err(e) => conn_error = Some(e),
                }
                // the pipelined read sees the append when the append was acknowledged
                if follow.is_some() && conn_error.is_none() {
                    let r = read_reply(&mut cluster, &mut client);
                    sim::hold_confirmation_updates(false);
                    cluster.settle();
                    match r {
                        Ok(v) => {
                            let bucket = partition % plan.buckets;
                            match then {
                                1 => {
                                    let want = model.next_ver.get(&(bucket, sname.clone())).map(|n| n - 1);
                                    let got = match &v {
                                        V::Null => Ok(None),
                                        V::Int(i) => Ok(Some(*i as u64)),
                                        other => Err(format!("{other:?}")),
                                    };
                                    if got != Ok(want) {
                                        report("acknowledged-append-not-visible", "ESVER", format!("op {opi}: ESVER pipelined behind EAPPEND on {sname} answered {got:?}; the model says {want:?}"));
                                    }
                                }
                                2 => {
                                    let want = model.next_seq.get(&partition).map(|n| n - 1);
                                    let got = match &v {
                                        V::Null => Ok(None),
                                        V::Int(i) => Ok(Some(*i as u64)),
                                        other => Err(format!("{other:?}")),
                                    };
                                    if got != Ok(want) {
                                        report("acknowledged-append-not-visible", "EPSEQ", format!("op {opi}: EPSEQ pipelined behind EAPPEND answered {got:?}; the model says {want:?}"));
                                    }
                                }
                                _ => {
                                    let in_range: Vec<&MEvent> = model.events.iter().filter(|e| e.partition % plan.buckets == bucket && e.stream == sname).collect();
                                    let got = match v.get("events") {
                                        Some(V::Arr(a)) => a.len(),
                                        _ => usize::MAX,
                                    };
                                    if got != in_range.len().min(100) {
                                        report("acknowledged-append-not-visible", "ESCAN", format!("op {opi}: ESCAN pipelined behind EAPPEND on {sname} returned {got} events; the model has {}", in_range.len()));
                                    }
                                }
                            }
                            *probes.entry("read_pipelined_behind_append".into()).or_insert(0) += 1;
                        }
                        Err(e) => conn_error = Some(e),
                    }
                }
            }
            Op::MAppend { key, events } => {
                let pk = keys[*key];
                let hash = uuid_to_partition_hash(pk);
                let partition = hash % plan.partitions;
                let mut full = vec![b"EMAPPEND".to_vec(), pk.to_string().into_bytes()];
                let mut ok = true;
                let mut pending: BTreeMap<(u16, String), u64> = BTreeMap::new();
                let mut per_event: Vec<(String, u64, Option<Uuid>, Option<u64>, usize)> = Vec::new();
                let candidates: Vec<usize> = (0..plan.streams).filter(|i| home_is_explicit(*i) && home_key(*i) == pk).collect();
                if candidates.is_empty() {
                    continue;
                }
                let remapped: Vec<Ev> = events.iter().map(|e| Ev { stream: candidates[e.stream % candidates.len()], ..e.clone() }).collect();
                for ev in &remapped {
                    let (mut a, evok, id, next_ver, strict_reject) = ev_args(ev, partition, &model, &pending, &mut rng, hash);
                    full.append(&mut a);
                    let sname = stream_names[ev.stream].clone();
                    if !evok || (plan.strict && strict_reject) {
                        ok = false;
                    }
                    if let Some(first) = model.stream_key.get(&(partition % plan.buckets, sname.clone())) {
                        if *first != pk {
                            ok = false;
                        }
                    }
                    pending.insert((partition % plan.buckets, sname.clone()), next_ver + 1);
                    per_event.push((sname, next_ver, id, ev.timestamp, ev.payload));
                }
                match exchange_with(&mut cluster, &mut client, &mut rng, full, None) {
                    Ok(v) => {
                        if ok {
                            if v.is_err() {
                                report("valid-append-rejected", "EMAPPEND", format!("op {opi}: EMAPPEND of {} events answered {v:?}", events.len()));
                            } else {
                                let first = model.next_seq.get(&partition).copied().unwrap_or(0);
                                let last = first + events.len() as u64 - 1;
                                let gf = v.get("first_partition_sequence").and_then(|x| x.int());
                                let gl = v.get("last_partition_sequence").and_then(|x| x.int());
                                if gf != Some(first as i64) || gl != Some(last as i64) {
                                    report("append-reply-wrong", "EMAPPEND", format!("op {opi}: EMAPPEND answered sequences {gf:?}..={gl:?}; the model says {first}..={last}"));
                                }
                                let evs = match v.get("events") {
                                    Some(V::Arr(a)) => a.clone(),
                                    _ => vec![],
                                };
                                if evs.len() != events.len() {
                                    report("append-reply-wrong", "EMAPPEND", format!("op {opi}: EMAPPEND of {} events answered {} event entries", events.len(), evs.len()));
                                }
                                let multi_stream = per_event.iter().map(|p| &p.0).collect::<std::collections::BTreeSet<_>>().len() > 1;
                                for (i, (sname, ver, id, ts, payload)) in per_event.iter().enumerate() {
                                    let Some(e) = evs.get(i) else { break };
                                    let gv = e.get("stream_version").and_then(|x| x.int());
                                    let gs = e.get("stream_id").and_then(|x| x.text());
                                    if gv != Some(*ver as i64) || gs.as_deref() != Some(sname.as_str()) {
                                        report("per-event-version-wrong", "EMAPPEND", format!("op {opi}: EMAPPEND event {i} answered stream {gs:?} version {gv:?}; the model says stream {sname} version {ver}"));
                                    }
                                    let gid = e.get("event_id").and_then(|x| x.text()).and_then(|s| Uuid::parse_str(&s).ok());
                                    if let (Some(w), Some(g)) = (id, gid) {
                                        if *w != g {
                                            report("append-reply-wrong", "EMAPPEND", format!("op {opi}: EMAPPEND event {i} echoed id {g} for {w}"));
                                        }
                                    }
                                    if let Some(eid) = gid {
                                        model.events.push(MEvent { id: eid, partition, seq: first + i as u64, stream: sname.clone(), version: *ver, name: "Evt".into(), payload: payload_of(*payload), metadata: vec![], timestamp_ms: *ts });
                                        known_ids.push(eid);
                                    }
                                    model.next_ver.insert((partition % plan.buckets, sname.clone()), ver + 1);
                                    model.stream_key.entry((partition % plan.buckets, sname.clone())).or_insert(pk);
                                }
                                model.next_seq.insert(partition, last + 1);
                                if multi_stream {
                                    *probes.entry("multi_stream_transaction_accepted".into()).or_insert(0) += 1;
                                }
                            }
                        } else if !v.is_err() {
                            report("invalid-append-accepted", "EMAPPEND", format!("op {opi}: EMAPPEND that the model rejects was accepted: {v:?}"));
                            conn_error = Some("model diverged".into());
                        } else {
                            *probes.entry("append_rejected_as_expected".into()).or_insert(0) += 1;
                        }
                    }
                    Err(e) => conn_error = Some(e),
                }
            }
            Op::Get { which, known } => {
                let id = if *known && !known_ids.is_empty() { known_ids[(*which as usize) % known_ids.len()] } else { make_id(7, 0xdead_0000 + *which as u128) };
                match exchange_with(&mut cluster, &mut client, &mut rng, vec![b"EGET".to_vec(), id.to_string().into_bytes()], None) {
                    Ok(v) => {
                        let me = model.events.iter().find(|e| e.id == id);
                        match (me, &v) {
                            (Some(m), V::Map(_)) => check_event(&report, opi, "EGET", m, &v),
                            (None, V::Null) => {}
                            (Some(m), other) => report("existing-event-not-found", "EGET", format!("op {opi}: EGET of the event at partition {} sequence {} answered {other:?}", m.partition, m.seq)),
                            (None, other) => report("unknown-event-found", "EGET", format!("op {opi}: EGET of an id that was never written answered {other:?}")),
                        }
                    }
                    Err(e) => conn_error = Some(e),
                }
            }
            Op::Scan { stream, start, end, count, explicit_key } => {
                let sname = stream_names[*stream].clone();
                let pk = home_key(*stream);
                let explicit_key = &(*explicit_key || home_is_explicit(*stream));
                let partition = uuid_to_partition_hash(pk) % plan.partitions;
                let mut args = vec![b"ESCAN".to_vec(), sname.clone().into_bytes(), start.map(|s| s.to_string()).unwrap_or("-".into()).into_bytes(), end.map(|s| s.to_string()).unwrap_or("+".into()).into_bytes()];
                if *explicit_key {
                    args.push(b"PARTITION_KEY".to_vec());
                    args.push(pk.to_string().into_bytes());
                }
                if let Some(c) = count {
                    args.push(b"COUNT".to_vec());
                    args.push(c.to_string().into_bytes());
                }
                match exchange_with(&mut cluster, &mut client, &mut rng, args, None) {
                    Ok(v) => {
                        let s0 = start.unwrap_or(0);
                        let in_range: Vec<&MEvent> = model.events.iter().filter(|e| e.partition % plan.buckets == partition % plan.buckets && e.stream == sname && e.version >= s0 && end.map(|x| e.version <= x).unwrap_or(true)).collect();
                        check_scan(&report, opi, "ESCAN", &in_range, count.unwrap_or(100), &v, |m| m.version, "stream_version");
                    }
                    Err(e) => conn_error = Some(e),
                }
            }
            Op::PScan { key, by_id, start, end, count } => {
                let pk = keys[*key];
                let partition = uuid_to_partition_hash(pk) % plan.partitions;
                let sel = if *by_id { partition.to_string() } else { pk.to_string() };
                let mut args = vec![b"EPSCAN".to_vec(), sel.into_bytes(), start.map(|s| s.to_string()).unwrap_or("-".into()).into_bytes(), end.map(|s| s.to_string()).unwrap_or("+".into()).into_bytes()];
                if let Some(c) = count {
                    args.push(b"COUNT".to_vec());
                    args.push(c.to_string().into_bytes());
                }
                match exchange_with(&mut cluster, &mut client, &mut rng, args, None) {
                    Ok(v) => {
                        let s0 = start.unwrap_or(0);
                        let in_range: Vec<&MEvent> = model.events.iter().filter(|e| e.partition == partition && e.seq >= s0 && end.map(|x| e.seq <= x).unwrap_or(true)).collect();
                        let mut sorted = in_range.clone();
                        sorted.sort_by_key(|e| e.seq);
                        check_scan(&report, opi, "EPSCAN", &sorted, count.unwrap_or(100), &v, |m| m.seq, "partition_sequence");
                    }
                    Err(e) => conn_error = Some(e),
                }
            }
            Op::SVer { stream, explicit_key } => {
                let sname = stream_names[*stream].clone();
                let pk = home_key(*stream);
                let explicit_key = &(*explicit_key || home_is_explicit(*stream));
                let partition = uuid_to_partition_hash(pk) % plan.partitions;
                let mut args = vec![b"ESVER".to_vec(), sname.clone().into_bytes()];
                if *explicit_key {
                    args.push(b"PARTITION_KEY".to_vec());
                    args.push(pk.to_string().into_bytes());
                }
                match exchange_with(&mut cluster, &mut client, &mut rng, args, None) {
                    Ok(v) => {
                        let want = model.next_ver.get(&(partition % plan.buckets, sname.clone())).map(|n| n - 1);
                        let got = match &v {
                            V::Null => Ok(None),
                            V::Int(i) => Ok(Some(*i as u64)),
                            other => Err(format!("{other:?}")),
                        };
                        if got != Ok(want) {
                            report("stream-version-wrong", "ESVER", format!("op {opi}: ESVER {sname} answered {got:?}; the model says {want:?}"));
                        }
                    }
                    Err(e) => conn_error = Some(e),
                }
            }
            Op::PSeq { key, by_id } => {
                let pk = keys[*key];
                let partition = uuid_to_partition_hash(pk) % plan.partitions;
                let sel = if *by_id { partition.to_string() } else { pk.to_string() };
                match exchange_with(&mut cluster, &mut client, &mut rng, vec![b"EPSEQ".to_vec(), sel.into_bytes()], None) {
                    Ok(v) => {
                        let want = model.next_seq.get(&partition).map(|n| n - 1);
                        let got = match &v {
                            V::Null => Ok(None),
                            V::Int(i) => Ok(Some(*i as u64)),
                            other => Err(format!("{other:?}")),
                        };
                        if got != Ok(want) {
                            report("partition-sequence-wrong", "EPSEQ", format!("op {opi}: EPSEQ answered {got:?}; the model says {want:?}"));
                        }
                    }
                    Err(e) => conn_error = Some(e),
                }
            }
            Op::PSub { key, from, window } => {
                if subs.len() >= 4 {
                    continue;
                }
                let partition = uuid_to_partition_hash(keys[*key]) % plan.partitions;
                let args = vec![b"EPSUB".to_vec(), partition.to_string().into_bytes(), b"FROM".to_vec(), from.to_string().into_bytes(), b"WINDOW".to_vec(), window.to_string().into_bytes()];
                match exchange_with(&mut cluster, &mut client, &mut rng, args, None) {
                    Ok(V::Str(id)) => subs.push(RSub { id: String::from_utf8_lossy(&id).to_string(), partition, stream: None, from: *from, window: *window, received: Vec::new(), acked: None }),
                    Ok(other) => report("subscribe-rejected", "EPSUB", format!("op {opi}: EPSUB answered {other:?}")),
                    Err(e) => conn_error = Some(e),
                }
            }
            Op::SSub { stream, from, window } => {
                if subs.len() >= 4 {
                    continue;
                }
                let sname = stream_names[*stream].clone();
                let pk = home_key(*stream);
                let partition = uuid_to_partition_hash(pk) % plan.partitions;
                let mut args = vec![b"ESUB".to_vec(), sname.clone().into_bytes()];
                if home_is_explicit(*stream) {
                    args.push(b"PARTITION_KEY".to_vec());
                    args.push(pk.to_string().into_bytes());
                }
                args.extend([b"FROM".to_vec(), from.to_string().into_bytes(), b"WINDOW".to_vec(), window.to_string().into_bytes()]);
                match exchange_with(&mut cluster, &mut client, &mut rng, args, None) {
                    Ok(V::Str(id)) => subs.push(RSub { id: String::from_utf8_lossy(&id).to_string(), partition, stream: Some(sname), from: *from, window: *window, received: Vec::new(), acked: None }),
                    Ok(other) => report("subscribe-rejected", "ESUB", format!("op {opi}: ESUB answered {other:?}")),
                    Err(e) => conn_error = Some(e),
                }
            }
            Op::Ack { sub, unknown } => {
                if *unknown {
                    match exchange_with(&mut cluster, &mut client, &mut rng, vec![b"EACK".to_vec(), Uuid::from_u128(0x1234 + opi as u128).to_string().into_bytes(), b"0".to_vec()], None) {
                        Ok(v) => {
                            if !v.is_err() {
                                report("invalid-request-accepted", "EACK", format!("op {opi}: EACK of an unknown subscription answered {v:?}"));
                            }
                        }
                        Err(e) => conn_error = Some(e),
                    }
                } else if let Some(sb) = subs.get_mut(*sub) {
                    if !sb.received.is_empty() {
                        let upto = sb.received.len() as u64 - 1;
                        let id = sb.id.clone();
                        match exchange_with(&mut cluster, &mut client, &mut rng, vec![b"EACK".to_vec(), id.into_bytes(), upto.to_string().into_bytes()], None) {
                            Ok(v) => {
                                if v.is_err() {
                                    report("ack-rejected", "EACK", format!("op {opi}: EACK {upto} answered {v:?}"));
                                }
                                subs[*sub].acked = Some(upto);
                            }
                            Err(e) => conn_error = Some(e),
                        }
                    }
                }
            }
            Op::Invalid { kind } => {
                let s = stream_names[0].clone().into_bytes();
                let args: Vec<Vec<u8>> = match kind {
                    0 => vec![b"EAPPEND".to_vec()],
                    1 => vec![b"EAPPEND".to_vec(), s.clone()],
                    2 => vec![b"EGET".to_vec(), b"not-a-uuid".to_vec()],
                    3 => vec![b"ESCAN".to_vec(), s.clone(), b"+".to_vec(), b"-".to_vec()],
                    4 => vec![b"EPSCAN".to_vec(), b"0".to_vec(), b"abc".to_vec(), b"+".to_vec()],
                    5 => vec![b"NOSUCHCOMMAND".to_vec(), b"x".to_vec()],
                    6 => vec![b"EAPPEND".to_vec(), s.clone(), b"Evt".to_vec(), b"EXPECTED_VERSION".to_vec(), b"-1".to_vec()],
                    7 => vec![b"EAPPEND".to_vec(), s.clone(), b"Evt".to_vec(), b"TIMESTAMP".to_vec(), b"99999999999999999999999".to_vec()],
                    8 => vec![b"EMAPPEND".to_vec(), b"zzz".to_vec(), s.clone(), b"Evt".to_vec()],
                    9 => vec![b"ESVER".to_vec()],
                    10 => vec![b"EPSEQ".to_vec(), b"70000".to_vec()],
                    // a partition id the cluster does not have: an error, never another partition's data
                    12 => vec![b"EPSEQ".to_vec(), (plan.partitions as u32 + (plan.seed % 7) as u32).to_string().into_bytes()],
                    13 => vec![b"EPSCAN".to_vec(), (plan.partitions as u32 * (1 + (plan.seed % 5) as u32)).to_string().into_bytes(), b"-".to_vec(), b"+".to_vec()],
                    14 => vec![b"EPSEQ".to_vec(), b"65535".to_vec()],
                    _ => vec![b"EAPPEND".to_vec(), s.clone(), b"Evt".to_vec(), b"EVENT_ID".to_vec(), b"1234".to_vec()],
                };
                match exchange_with(&mut cluster, &mut client, &mut rng, args.clone(), None) {
                    Ok(v) => {
                        if !v.is_err() {
                            report("invalid-request-accepted", "invalid", format!("op {opi}: request {:?} answered {v:?}", args.iter().map(|a| String::from_utf8_lossy(a).to_string()).collect::<Vec<_>>()));
                        } else {
                            *probes.entry("invalid_request_rejected".into()).or_insert(0) += 1;
                        }
                    }
                    Err(e) => conn_error = Some(e),
                }
            }
        }
        // subscription traffic: whatever arrived meanwhile
        cluster.settle();
        let _ = client.read_available();
        while let Ok(Some((v, used))) = decode(&client.inbuf) {
            if !matches!(v, V::Push(_)) {
                break;
            }
            client.inbuf.drain(..used);
            client.pushes.push(v);
        }
        for pv in std::mem::take(&mut client.pushes) {
            check_push(&report, opi, &pv, &mut subs, &model, plan.buckets);
        }
        if let Some(e) = conn_error {
            if e != "model diverged" {
                let served = server_done.lock().unwrap().clone();
                report("connection-crashed", "connection", format!("op {opi} {op:?}: {e}; connection task result: {served:?}"));
            }
            break;
        }
        if !violations.borrow().is_empty() {
            break;
        }
    }
    // the subscriber acknowledges everything: every stored event from the start position arrives
    if violations.borrow().is_empty() && !subs.is_empty() {
        for _round in 0..400 {
            cluster.settle();
            let _ = client.read_available();
            while let Ok(Some((v, used))) = decode(&client.inbuf) {
                client.inbuf.drain(..used);
                if matches!(v, V::Push(_)) {
                    client.pushes.push(v);
                }
            }
            for pv in std::mem::take(&mut client.pushes) {
                check_push(&report, plan.ops.len(), &pv, &mut subs, &model, plan.buckets);
            }
            let mut progressed = false;
            for i in 0..subs.len() {
                let n = subs[i].received.len() as u64;
                if n > 0 && subs[i].acked.map(|a| a + 1 < n).unwrap_or(true) {
                    let id = subs[i].id.clone();
                    if exchange_with(&mut cluster, &mut client, &mut rng, vec![b"EACK".to_vec(), id.into_bytes(), (n - 1).to_string().into_bytes()], None).is_ok() {
                        subs[i].acked = Some(n - 1);
                        progressed = true;
                    }
                }
            }
            if !progressed {
                break;
            }
        }
        for sb in &subs {
            let expected = expected_for(sb, &model, plan.buckets);
            if sb.received.len() != expected.len() {
                report("subscription-incomplete", if sb.stream.is_some() { "ESUB" } else { "EPSUB" }, format!("subscription from {} (window {}) received {} events; the model has {} from there", sb.from, sb.window, sb.received.len(), expected.len()));
            }
        }
        *probes.entry("subscriptions".into()).or_insert(0) += subs.len() as u64;
        *probes.entry("subscription_messages".into()).or_insert(0) += subs.iter().map(|s| s.received.len() as u64).sum::<u64>();
    }
    out.violations = violations.into_inner();
    if model.events.len() >= 3 && model.next_seq.len() >= 1 {
        let mut c = Chain::new();
        c.push_u64(sched.0);
        out.nontrivial = Some(c.0);
    }
    for (name, key) in [("read_pipelined_behind_append", "read_pipelined_behind_append"), ("confirmation_actor_delayed", "confirmation_update_delayed"), ("invalid_request", "invalid_request_rejected")] {
        if let Some(n) = probes.get(key) {
            out.faults.insert(name.to_string(), *n);
        }
    }
    let pf = PARTIAL_FRAMES.with(|c| c.replace(0));
    if pf > 0 {
        out.faults.insert("request_delivered_in_partial_frames".into(), pf);
    }
    out.probes = probes;
    out.schedule_hash = sched.0;
    let mut st = Chain::new();
    for e in &model.events {
        st.push_u64(e.partition as u64);
        st.push_u64(e.seq);
        st.push_str(&e.stream);
        st.push_u64(e.version);
    }
    out.state_hash = st.0;
    out.event_hash = st.0 ^ sched.0 ^ out.violations.len() as u64;
    out.sim_nanos = cluster.now_ms * 1_000_000;
    out.evaluations = out.evaluations.max(1);
    out.sample = Some(json!({"partitions": plan.partitions, "streams": plan.streams, "strict": plan.strict, "ops": plan.ops.len(), "events": model.events.len()}));
    drop(client);
    cluster.shutdown();
    out
}

fn check_event(report: &dyn Fn(&str, &str, String), opi: usize, cmd: &str, m: &MEvent, v: &V) {
    let gseq = v.get("partition_sequence").and_then(|x| x.int());
    let gver = v.get("stream_version").and_then(|x| x.int());
    let gpid = v.get("partition_id").and_then(|x| x.int());
    let gstream = v.get("stream_id").and_then(|x| x.text());
    let gname = v.get("event_name").and_then(|x| x.text());
    let gpayload = match v.get("payload") {
        Some(V::Str(s)) => Some(s.clone()),
        _ => None,
    };
    let gmeta = match v.get("metadata") {
        Some(V::Str(s)) => Some(s.clone()),
        _ => None,
    };
    let gid = v.get("event_id").and_then(|x| x.text());
    if gseq != Some(m.seq as i64) || gver != Some(m.version as i64) || gpid != Some(m.partition as i64) || gstream.as_deref() != Some(m.stream.as_str()) || gname.as_deref() != Some(m.name.as_str()) || gpayload.as_deref() != Some(m.payload.as_slice()) || gmeta.as_deref() != Some(m.metadata.as_slice()) || gid != Some(m.id.to_string()) {
        report("event-content-wrong", cmd, format!("op {opi}: {cmd} returned an event that differs from what was appended: got id {gid:?} partition {gpid:?} sequence {gseq:?} stream {gstream:?} version {gver:?} name {gname:?} payload {:?}; the model has partition {} sequence {} stream {} version {} payload of {} bytes", gpayload.as_ref().map(|p| p.len()), m.partition, m.seq, m.stream, m.version, m.payload.len()));
    }
    if let (Some(ts), Some(got)) = (m.timestamp_ms, v.get("timestamp").and_then(|x| x.int())) {
        if got as u64 != ts {
            report("timestamp-changed", cmd, format!("op {opi}: {cmd} returned timestamp {got} for an event appended with TIMESTAMP {ts}"));
        }
    }
}

fn check_scan(report: &dyn Fn(&str, &str, String), opi: usize, cmd: &str, in_range: &[&MEvent], count: u64, v: &V, pos: impl Fn(&MEvent) -> u64, pos_field: &str) {
    if v.is_err() {
        report("valid-scan-rejected", cmd, format!("op {opi}: {cmd} answered {v:?}"));
        return;
    }
    let events = match v.get("events") {
        Some(V::Arr(a)) => a.clone(),
        _ => {
            report("scan-reply-malformed", cmd, format!("op {opi}: {cmd} answered {v:?}"));
            return;
        }
    };
    let has_more = matches!(v.get("has_more"), Some(V::Bool(true)));
    let expected: Vec<&&MEvent> = in_range.iter().take(count as usize).collect();
    let got_pos: Vec<Option<i64>> = events.iter().map(|e| e.get(pos_field).and_then(|x| x.int())).collect();
    let want_pos: Vec<Option<i64>> = expected.iter().map(|m| Some(pos(m) as i64)).collect();
    if got_pos != want_pos {
        report("scan-result-wrong", cmd, format!("op {opi}: {cmd} returned {pos_field}s {got_pos:?}; the model says {want_pos:?} (count {count})"));
        return;
    }
    for (e, m) in events.iter().zip(expected.iter()) {
        check_event(report, opi, cmd, m, e);
    }
    if in_range.len() > expected.len() && !has_more {
        report("has-more-hides-events", cmd, format!("op {opi}: {cmd} returned {} of {} events in the requested range with has_more = false", expected.len(), in_range.len()));
    }
}

struct RSub {
    id: String,
    partition: u16,
    stream: Option<String>,
    from: u64,
    window: u64,
    /// event ids in the order received
    received: Vec<String>,
    acked: Option<u64>,
}

/// the model events a subscription has to deliver, in order
fn expected_for<'a>(sb: &RSub, model: &'a Model, buckets: u16) -> Vec<&'a MEvent> {
    let mut v: Vec<&MEvent> = match &sb.stream {
        None => model.events.iter().filter(|e| e.partition == sb.partition && e.seq >= sb.from).collect(),
        Some(s) => model.events.iter().filter(|e| e.partition % buckets == sb.partition % buckets && &e.stream == s && e.version >= sb.from).collect(),
    };
    v.sort_by_key(|e| if sb.stream.is_some() { e.version } else { e.seq });
    v
}

fn check_push(report: &dyn Fn(&str, &str, String), opi: usize, pv: &V, subs: &mut [RSub], model: &Model, buckets: u16) {
    let V::Push(items) = pv else { return };
    let kind = items.first().and_then(|x| x.text()).unwrap_or_default();
    if kind != "message" {
        return;
    }
    let id = items.get(1).and_then(|x| x.text()).unwrap_or_default();
    let cursor = items.get(2).and_then(|x| x.int());
    let Some(ev) = items.get(3) else { return };
    let Some(sb) = subs.iter_mut().find(|s| s.id == id) else {
        report("message-for-unknown-subscription", "push", format!("op {opi}: message for subscription {id} that this connection never created"));
        return;
    };
    let cmd = if sb.stream.is_some() { "ESUB" } else { "EPSUB" };
    if cursor != Some(sb.received.len() as i64) {
        report("cursor-not-consecutive", cmd, format!("op {opi}: message cursor {cursor:?} as delivery number {}", sb.received.len()));
    }
    let idx = sb.received.len();
    let expected = expected_for(sb, model, buckets);
    match expected.get(idx) {
        Some(m) => check_event(report, opi, cmd, m, ev),
        None => report("unexpected-message", cmd, format!("op {opi}: subscription from {} received a {}th event; the model has only {} from there", sb.from, idx + 1, expected.len())),
    }
    sb.received.push(ev.get("event_id").and_then(|x| x.text()).unwrap_or_default());
    let outstanding = sb.received.len() as u64 - sb.acked.map(|a| (a + 1).min(sb.received.len() as u64)).unwrap_or(0);
    if outstanding > sb.window {
        report("window-exceeded", cmd, format!("op {opi}: {outstanding} unacknowledged messages with WINDOW {}", sb.window));
    }
}
