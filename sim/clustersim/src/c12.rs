//! C12 — replicas apply replicated writes in sequence order, each at most once.
//! Real `PartitionReplicatorActor` (ordered queues, buffering, eviction, catch-up), real
//! `ConfirmationActor` and `Database` on a paused tokio clock; the coordinator is the simulator:
//! it sends `ReplicateWrite`s in a PRNG order with duplicates, conflicts, stale and far-ahead
//! writes, advances the clock, and answers (or loses) catch-up requests through the transport seam.

use std::collections::{BTreeMap, HashSet};
use std::sync::atomic::{AtomicU64, Ordering};
use std::sync::{Arc, Mutex, OnceLock};
use std::time::Duration;

use kameo::prelude::*;
use serde::{Deserialize, Serialize};
use serde_json::{Value, json};
use sierradb::StreamId;
use sierradb::bucket::segment::{CommittedEvents, EventRecord};
use sierradb::database::{DatabaseBuilder, ExpectedVersion, NewEvent, Transaction};
use sierradb::id::{set_uuid_flag, uuid_to_partition_hash};
use sierradb::writer_thread_pool::AppendResult;
use sierradb_cluster::confirmation::actor::ConfirmationActor;
use sierradb_cluster::verif::{BoxFut, SyncRequest, Transport};
use sierradb_cluster::write::error::WriteError;
use sierradb_cluster::write::replicate::{PartitionReplicatorActor, PartitionReplicatorActorArgs, ReplicateWrite};
use sierradb_cluster::{ClusterActor, ClusterError};
use simcore::runner::Tier;
use simcore::{Chain, Rng, RunOutcome, Violation};
use smallvec::SmallVec;
use uuid::Uuid;

use crate::util::{Scratch, make_id};

#[derive(Clone, Debug, Serialize, Deserialize)]
#[serde(tag = "kind")]
pub enum Op {
    /// deliver ground-truth transaction `txn`
    Write { txn: usize },
    /// deliver a different transaction (own id, `events` events) claiming the sequence of `txn`
    Conflict { txn: usize, events: usize, seed: u64 },
    /// advance the simulated clock
    Advance { ms: u64 },
}

#[derive(Clone, Debug, Serialize, Deserialize)]
pub struct C12Plan {
    pub txns: Vec<usize>, // events per ground-truth transaction
    pub ops: Vec<Op>,
    pub buffer_size: usize,
    pub buffer_timeout_ms: u64,
    pub catchup_timeout_ms: u64,
    /// how catch-up requests are answered: 0 error, 1 empty, 2 partial, 3 complete
    pub catchup_mode: u8,
    pub seed: u64,
}

pub fn plan(tier: Tier, seed: u64) -> Value {
    let mut rng = Rng::new(seed);
    let n = 4 + rng.usize_below(match tier { Tier::Quick => 16, Tier::Thorough => 40 });
    let txns: Vec<usize> = (0..n).map(|_| if rng.chance(1, 2) { 1 } else { 2 + rng.usize_below(3) }).collect();
    let buffer_size = *rng.pick(&[1usize, 2, 4, 64]);
    let mut ops: Vec<Op> = Vec::new();
    // delivery order: mostly a local shuffle (window) of the true order, sometimes a full shuffle
    let mut order: Vec<usize> = (0..n).collect();
    if rng.chance(1, 4) {
        rng.shuffle(&mut order);
    } else {
        let w = 2 + rng.usize_below(5);
        let mut i = 0;
        while i < n {
            let end = (i + w).min(n);
            rng.shuffle(&mut order[i..end]);
            i = end;
        }
    }
    for t in order {
        ops.push(Op::Write { txn: t });
        if rng.chance(1, 5) {
            ops.push(Op::Write { txn: t }); // duplicate right away
        }
        if rng.chance(1, 6) {
            let other = rng.usize_below(n);
            ops.push(Op::Write { txn: other }); // duplicate / stale / ahead
        }
        if rng.chance(1, 6) {
            ops.push(Op::Conflict { txn: rng.usize_below(n), events: 1 + rng.usize_below(3), seed: rng.next_u64() >> 12 });
        }
        if rng.chance(1, 7) {
            ops.push(Op::Advance { ms: *rng.pick(&[100u64, 900, 1100, 2500, 6000]) });
        }
    }
    // a few writes are withheld in some runs so that a gap stays until the catch-up timer fires
    if rng.chance(1, 3) && ops.len() > 4 {
        let victim = rng.usize_below(n);
        ops.retain(|o| !matches!(o, Op::Write { txn } if *txn == victim));
        ops.push(Op::Advance { ms: 2500 });
        if rng.chance(1, 2) {
            ops.push(Op::Write { txn: victim });
        }
    }
    serde_json::to_value(C12Plan {
        txns,
        ops,
        buffer_size,
        buffer_timeout_ms: *rng.pick(&[3000u64, 8000]),
        catchup_timeout_ms: *rng.pick(&[1000u64, 2000]),
        catchup_mode: rng.below(4) as u8,
        seed: rng.next_u64() >> 8,
    })
    .unwrap()
}

const PARTITION: u16 = 1;

/// Global kameo swarm handle + a coordinator reference (once per process).
fn coordinator_ref() -> &'static Mutex<Option<RemoteActorRef<ClusterActor>>> {
    static REF: OnceLock<Mutex<Option<RemoteActorRef<ClusterActor>>>> = OnceLock::new();
    REF.get_or_init(|| Mutex::new(None))
}

async fn get_coordinator_ref() -> RemoteActorRef<ClusterActor> {
    if let Some(r) = coordinator_ref().lock().unwrap().clone() {
        return r;
    }
    let keypair = libp2p::identity::Keypair::ed25519_from_bytes([7u8; 32]).expect("keypair");
    let behaviour = Box::leak(Box::new(kameo::remote::Behaviour::new(keypair.public().to_peer_id(), kameo::remote::messaging::Config::default())));
    let _ = behaviour.try_init_global();
    let prepared = Box::leak(Box::new(ClusterActor::prepare()));
    let r = prepared.actor_ref().into_remote_ref().await;
    *coordinator_ref().lock().unwrap() = Some(r.clone());
    r
}

/// The simulated coordinator side of catch-up.
struct SimTransport {
    mode: u8,
    truth: Mutex<Vec<Vec<EventRecord>>>, // ground-truth transactions as event records
    requests: AtomicU64,
}

impl Transport for SimTransport {
    fn partition_sync(&self, _coordinator: RemoteActorRef<ClusterActor>, req: SyncRequest) -> BoxFut<Result<Vec<CommittedEvents>, RemoteSendError<ClusterError>>> {
        let n = self.requests.fetch_add(1, Ordering::SeqCst);
        let truth = self.truth.lock().unwrap().clone();
        let mode = self.mode;
        Box::pin(async move {
            // network round trip in simulated time (without it an empty answer makes the replica ask
            // again at once, for ever, within one simulated instant)
            tokio::time::sleep(Duration::from_millis(20)).await;
            let wanted: Vec<&Vec<EventRecord>> = truth.iter().filter(|t| t[0].partition_sequence >= req.from_seq && t[0].partition_sequence <= req.to_seq).collect();
            let take = match mode {
                0 => return Err(RemoteSendError::ActorNotRunning),
                1 => 0,
                2 => (wanted.len() + 1) / 2,
                _ => wanted.len(),
            };
            let _ = n;
            Ok(wanted
                .into_iter()
                .take(take)
                .map(|t| {
                    if t.len() == 1 {
                        CommittedEvents::Single(t[0].clone())
                    } else {
                        CommittedEvents::Transaction {
                            events: Box::new(t.iter().cloned().collect()),
                            commit: sierradb::bucket::segment::CommitRecord { offset: 0, transaction_id: t[0].transaction_id, timestamp: 1, confirmation_count: 0, event_count: t.len() as u32 },
                        }
                    }
                })
                .collect())
        })
    }
}

struct Msg {
    txn_id: Uuid,
    first_seq: u64,
    event_ids: Vec<Uuid>,
    transaction: Transaction,
}

fn build_txn(pk: Uuid, first_seq: u64, events: usize, seed: u64, stream_tag: &str) -> Msg {
    let hash = uuid_to_partition_hash(pk);
    let mut rng = Rng::new(seed);
    let evs: SmallVec<[NewEvent; 4]> = (0..events)
        .map(|i| NewEvent {
            event_id: make_id(hash, ((rng.next_u64() as u128) << 64) | rng.next_u64() as u128),
            stream_id: StreamId::new(format!("{stream_tag}-{first_seq}-{i}")).unwrap(),
            stream_version: ExpectedVersion::Any,
            event_name: "R".into(),
            timestamp: 1_700_000_000_000_000_000,
            metadata: vec![],
            payload: vec![i as u8; 16],
        })
        .collect();
    let event_ids = evs.iter().map(|e| e.event_id).collect();
    let id = set_uuid_flag(Uuid::from_u128(((rng.next_u64() as u128) << 64) | rng.next_u64() as u128), events == 1);
    let expected = if first_seq == 0 { ExpectedVersion::Empty } else { ExpectedVersion::Exact(first_seq - 1) };
    let transaction = Transaction::new(pk, PARTITION, evs).unwrap().with_transaction_id(id).expected_partition_sequence(expected).with_confirmation_count(0);
    Msg { txn_id: id, first_seq, event_ids, transaction }
}

#[derive(Clone, Debug)]
enum Reply {
    Ok(AppendResult),
    Rejected(String),
    /// the actor is gone, or the reply channel was dropped
    Lost(String),
}

pub fn execute(plan_v: &Value) -> RunOutcome {
    let plan: C12Plan = match serde_json::from_value(plan_v.clone()) {
        Ok(p) => p,
        Err(e) => {
            let mut out = RunOutcome::default();
            out.violations.push(Violation { signature: "C12/harness/bad-plan/parse".into(), detail: e.to_string() });
            return out;
        }
    };
    let rt = tokio::runtime::Builder::new_current_thread().enable_all().start_paused(true).build().expect("runtime");
    rt.block_on(crate::driver::spin(run(plan)))
}

async fn run(plan: C12Plan) -> RunOutcome {
    let sim = crate::sim::sim();
    sim.reset_clock();
    crate::driver::reset_counters();
    let scratch = Scratch::new("c12");
    let dir = scratch.join("data");
    let mut sigs: BTreeMap<String, String> = BTreeMap::new();
    let mut chain = Chain::new();
    let mut evals = 0u64;
    let db = DatabaseBuilder::new()
        .segment_size_bytes(256 * 1024)
        .total_buckets(2)
        .bucket_ids_from_range(0..2)
        .writer_threads(1)
        .reader_threads(1)
        .sync_interval(Duration::ZERO)
        .open(&dir)
        .expect("open database");
    let coordinator = get_coordinator_ref().await;
    let confirmation_ref = ConfirmationActor::spawn(ConfirmationActor::new(db.clone(), 1, HashSet::from([PARTITION])).await.expect("confirmation actor"));
    let replicator = PartitionReplicatorActor::spawn(PartitionReplicatorActorArgs {
        partition_id: PARTITION,
        database: db.clone(),
        confirmation_ref: confirmation_ref.clone(),
        buffer_size: plan.buffer_size,
        buffer_timeout: Duration::from_millis(plan.buffer_timeout_ms),
        catchup_timeout: Duration::from_millis(plan.catchup_timeout_ms),
    });
    replicator.wait_for_startup().await;
    // ground truth
    let pk = make_id(PARTITION, 0xfeed_face_cafe_beef_0123_4567_89ab_cdefu128);
    let mut truth: Vec<Msg> = Vec::new();
    let mut seq = 0u64;
    for (i, &n) in plan.txns.iter().enumerate() {
        truth.push(build_txn(pk, seq, n, plan.seed ^ (i as u64) << 20, "t"));
        seq += n as u64;
    }
    let truth_records: Vec<Vec<EventRecord>> = truth
        .iter()
        .map(|m| {
            m.transaction
                .events()
                .iter()
                .enumerate()
                .map(|(i, e)| EventRecord {
                    offset: 0,
                    event_id: e.event_id,
                    partition_key: pk,
                    partition_id: PARTITION,
                    transaction_id: m.txn_id,
                    partition_sequence: m.first_seq + i as u64,
                    stream_version: 0,
                    timestamp: e.timestamp,
                    confirmation_count: 0,
                    stream_id: e.stream_id.clone(),
                    event_name: e.event_name.clone(),
                    metadata: e.metadata.clone(),
                    payload: e.payload.clone(),
                    size: 0,
                })
                .collect()
        })
        .collect();
    let transport = Arc::new(SimTransport { mode: plan.catchup_mode, truth: Mutex::new(truth_records), requests: AtomicU64::new(0) });
    sierradb_cluster::verif::install_transport(Some(transport.clone()));

    // every delivered message: (txn id, first seq, event ids, reply slot)
    struct Sent {
        txn_id: Uuid,
        first_seq: u64,
        event_ids: Vec<Uuid>,
        conflict: bool,
        sent_at_ms: u64,
        delivered_op: usize,
        answered_op: Option<usize>,
        reply: Arc<Mutex<Option<Reply>>>,
    }
    let mut sent: Vec<Sent> = Vec::new();
    let completed = Arc::new(AtomicU64::new(0));
    let mut prev_log: Vec<(u64, Uuid, Uuid)> = Vec::new();
    let mut now_ms = 0u64;
    let mut died = false;
    let mut overflowed = false;
    let mut multi_before_pred = false;

    macro_rules! violation {
        ($clause:expr, $site:expr, $shape:expr, $detail:expr) => {
            sigs.entry(format!("C12/{}/{}/{}", $clause, $site, $shape)).or_insert($detail)
        };
    }

    for (oi, op) in plan.ops.iter().enumerate() {
        match op {
            Op::Advance { ms } => {
                // step the clock in slices so that timers fire in order and handlers run in between
                let mut left = *ms;
                while left > 0 {
                    let d = left.min(250);
                    tokio::time::advance(Duration::from_millis(d)).await;
                    sim.advance(d * 1_000_000);
                    now_ms += d;
                    left -= d;
                    crate::driver::quiesce(&completed).await;
                }
            }
            Op::Write { txn } | Op::Conflict { txn, .. } => {
                let Some(t) = truth.get(*txn) else { continue };
                let (msg, conflict) = match op {
                    Op::Conflict { events, seed, .. } => (build_txn(pk, t.first_seq, *events, *seed, "c"), true),
                    _ => (build_txn(pk, t.first_seq, plan.txns[*txn], plan.seed ^ (*txn as u64) << 20, "t"), false),
                };
                if !conflict && plan.txns[*txn] > 1 && prev_log.len() as u64 != t.first_seq {
                    multi_before_pred = true;
                }
                let reply = Arc::new(Mutex::new(None));
                sent.push(Sent { txn_id: msg.txn_id, first_seq: msg.first_seq, event_ids: msg.event_ids.clone(), conflict, sent_at_ms: now_ms, delivered_op: oi, answered_op: None, reply: reply.clone() });
                let r = replicator.clone();
                let c = completed.clone();
                let coordinator = coordinator.clone();
                tokio::spawn(async move {
                    let res = r.ask(ReplicateWrite { coordinator_ref: coordinator, coordinator_alive_since: 0, transaction: msg.transaction }).await;
                    let rep = match res {
                        Ok(a) => Reply::Ok(a),
                        Err(SendError::HandlerError(e)) => Reply::Rejected(format!("{e}")),
                        Err(e) => Reply::Lost(format!("{e}")),
                    };
                    *reply.lock().unwrap() = Some(rep);
                    c.fetch_add(1, Ordering::SeqCst);
                });
            }
        }
        crate::driver::quiesce(&completed).await;
        // ---- invariants at the quiescent point -------------------------------------------------
        evals += 1;
        for m in sent.iter_mut() {
            if m.answered_op.is_none() && m.reply.lock().unwrap().is_some() {
                m.answered_op = Some(oi);
            }
        }
        let log = read_log(&db).await;
        match &log {
            Err(e) => {
                violation!("log-unreadable", "read_partition", "error", format!("op {oi}: {e}"));
            }
            Ok(log) => {
                // (a) stable prefix
                if log.len() < prev_log.len() || log[..prev_log.len()] != prev_log[..] {
                    violation!("log-changed", "partition-log", "prefix", format!("op {oi}: the log no longer extends what was there before ({} -> {} events)", prev_log.len(), log.len()));
                }
                // (a) every applied transaction sits at the sequence its message assigned, whole, once
                let mut i = 0;
                let mut seen_txn: HashSet<Uuid> = HashSet::new();
                while i < log.len() {
                    let (s, txn_id, _) = log[i];
                    if s != i as u64 {
                        violation!("sequence-gap", "partition-log", "gap", format!("op {oi}: event {i} of the log has sequence {s}"));
                        break;
                    }
                    let Some(m) = sent.iter().find(|m| m.txn_id == txn_id) else {
                        // catch-up may bring in ground-truth transactions that were never delivered
                        match truth.iter().find(|m| m.txn_id == txn_id) {
                            Some(t) if t.first_seq == s => {
                                i += t.event_ids.len();
                                continue;
                            }
                            _ => {
                                violation!("unknown-transaction", "partition-log", "foreign", format!("op {oi}: sequence {s} holds a transaction nobody sent"));
                                break;
                            }
                        }
                    };
                    if !seen_txn.insert(txn_id) {
                        violation!("applied-twice", "partition-log", "duplicate", format!("op {oi}: transaction at sequence {s} appears twice in the log"));
                        break;
                    }
                    // first come, first served: a write buffered for this sequence must not be displaced by
                    // a different transaction that arrived later for the same sequence
                    if i >= prev_log.len() {
                        // the transaction may have been delivered several times; the latest delivery is the
                        // one that can have been applied now (conservative)
                        let x_delivered = sent.iter().filter(|e| e.txn_id == m.txn_id && e.delivered_op <= oi).map(|e| e.delivered_op).max().unwrap_or(m.delivered_op);
                        // ... unless that delivery was itself rejected (the transaction then came in through catch-up)
                        let x_rejected = sent.iter().filter(|e| e.txn_id == m.txn_id && e.delivered_op == x_delivered).all(|e| matches!(*e.reply.lock().unwrap(), Some(Reply::Rejected(_)) | Some(Reply::Lost(_))));
                        if x_rejected {
                            // nothing to check
                        } else if let Some(earlier) = sent.iter().find(|e| e.first_seq == m.first_seq && e.txn_id != m.txn_id && e.delivered_op < x_delivered && e.answered_op.map(|a| a >= x_delivered).unwrap_or(true) && !matches!(*e.reply.lock().unwrap(), Some(Reply::Ok(_))) && now_ms.saturating_sub(e.sent_at_ms) < plan.buffer_timeout_ms) {
                            violation!("buffered-write-displaced", "partition-log", if earlier.conflict { "by-truth" } else { "by-conflict" }, format!("op {oi}: sequence {s} was taken by a transaction delivered at op {} although a different transaction for the same sequence had been delivered at op {} and was still buffered then", x_delivered, earlier.delivered_op));
                        }
                    }
                    if m.first_seq != s {
                        violation!("wrong-sequence", "partition-log", "position", format!("op {oi}: transaction assigned to sequence {} was applied at {s}", m.first_seq));
                        break;
                    }
                    let ids: Vec<Uuid> = log[i..(i + m.event_ids.len()).min(log.len())].iter().map(|e| e.2).collect();
                    if ids != m.event_ids {
                        violation!("partial-or-mixed-transaction", "partition-log", "content", format!("op {oi}: transaction at sequence {s} applied with {} of {} events", ids.len(), m.event_ids.len()));
                        break;
                    }
                    i += m.event_ids.len();
                }
                let applied = log.len() as u64;
                // replies agree with the log
                for m in &sent {
                    let rep = m.reply.lock().unwrap().clone();
                    match rep {
                        Some(Reply::Ok(a)) => {
                            let in_log = log.iter().any(|e| e.1 == m.txn_id);
                            if a.first_partition_sequence != m.first_seq || !in_log {
                                violation!("ack-without-apply", "ReplicateWrite", "reply", format!("op {oi}: write for sequence {} answered Ok (first sequence {}) but the log {} it", m.first_seq, a.first_partition_sequence, if in_log { "holds" } else { "does not hold" }));
                            }
                        }
                        // a reply sender dropped after the buffer timeout also surfaces as "actor stopped":
                        // the actor itself must still be alive
                        Some(Reply::Lost(e)) if !replicator.is_alive() => {
                            if !died {
                                died = true;
                                violation!("replicator-died", "PartitionReplicatorActor", "actor-stopped", format!("op {oi}: {e}"));
                            }
                        }
                        Some(Reply::Rejected(e)) => {
                            if e.contains("buffer") {
                                overflowed = true;
                            }
                        }
                        _ => {}
                    }
                }
                // (c)/(e) nothing deliverable is left waiting: a pending (unanswered, unexpired) write whose
                // sequence is the next expected one or lies below it
                for m in &sent {
                    if m.reply.lock().unwrap().is_none() && now_ms.saturating_sub(m.sent_at_ms) < plan.buffer_timeout_ms {
                        if m.first_seq == applied && !m.conflict {
                            violation!("buffered-write-not-applied", "PartitionReplicatorActor", "next-expected", format!("op {oi}: the write for sequence {applied} is buffered and unanswered although all of its predecessors are applied"));
                        } else if m.first_seq < applied {
                            violation!("write-left-pending-below-next", "PartitionReplicatorActor", if m.conflict { "conflict" } else { "duplicate-or-stale" }, format!("op {oi}: a write for sequence {} is still unanswered although the log already holds {applied} events", m.first_seq));
                        }
                    }
                }
                // (c') ... nor is it thrown away: when the log has just grown up to the sequence of a ground-truth
                // write that was delivered less than the buffer timeout ago (a retry of an expired request, say),
                // that write is applied too, not dropped with its reply handle
                if applied as usize > prev_log.len() {
                    for m in &sent {
                        if !m.conflict && m.first_seq == applied && m.answered_op == Some(oi) && m.delivered_op < oi && now_ms.saturating_sub(m.sent_at_ms) < plan.buffer_timeout_ms && matches!(*m.reply.lock().unwrap(), Some(Reply::Lost(_))) {
                            let no_rival = !sent.iter().any(|o| o.first_seq == m.first_seq && o.txn_id != m.txn_id && o.delivered_op < oi);
                            if no_rival {
                                violation!("buffered-write-dropped", "PartitionReplicatorActor", "next-expected", format!("op {oi}: the log grew to {applied} events and the write for sequence {applied}, delivered {} ms ago (buffer timeout {} ms), was dropped with its reply handle instead of being applied", now_ms - m.sent_at_ms, plan.buffer_timeout_ms));
                            }
                        }
                    }
                }
                for e in log.iter().skip(prev_log.len()) {
                    chain.push_u64(e.0);
                    chain.push(e.1.as_bytes());
                }
                prev_log = log.clone();
            }
        }
        if died {
            break;
        }
    }
    // ---- (d) after the faults stop every write is answered within buffer_timeout + catch-up ------
    if !died {
        let mut waited = 0;
        while waited < plan.buffer_timeout_ms + plan.catchup_timeout_ms + 2000 {
            tokio::time::advance(Duration::from_millis(250)).await;
            sim.advance(250_000_000);
            waited += 250;
            crate::driver::quiesce(&completed).await;
        }
        let unanswered: Vec<u64> = sent.iter().filter(|m| m.reply.lock().unwrap().is_none()).map(|m| m.first_seq).collect();
        evals += 1;
        if !unanswered.is_empty() {
            violation!("write-never-answered", "ReplicateWrite", "after-timeouts", format!("writes for sequences {unanswered:?} were never answered, {} ms after the last delivery (buffer timeout {} ms, catch-up timeout {} ms, catch-up requests {})", waited, plan.buffer_timeout_ms, plan.catchup_timeout_ms, transport.requests.load(Ordering::SeqCst)));
        }
    }
    sierradb_cluster::verif::install_transport(None);
    let _ = replicator.stop_gracefully().await;
    let _ = confirmation_ref.stop_gracefully().await;
    crate::driver::quiesce(&completed).await;
    db.shutdown().await;
    let _ = db.reader_pool().install(|with_readers| with_readers(|readers| readers.clear()));
    drop(db);

    let mut out = RunOutcome::default();
    out.evaluations = evals.max(1);
    out.steps = plan.ops.len() as u64;
    out.sim_nanos = now_ms * 1_000_000;
    let dups = (plan.ops.iter().filter(|o| matches!(o, Op::Write { .. })).count() as u64).saturating_sub(plan.txns.len() as u64);
    out.faults.insert("duplicate_or_repeated_writes".into(), dups);
    out.faults.insert("conflicting_writes".into(), plan.ops.iter().filter(|o| matches!(o, Op::Conflict { .. })).count() as u64);
    out.faults.insert("clock_advances".into(), plan.ops.iter().filter(|o| matches!(o, Op::Advance { .. })).count() as u64);
    out.probes.insert("catch_up_requests".into(), transport.requests.load(Ordering::SeqCst));
    out.probes.insert("buffer_full_or_evicted_replies".into(), overflowed as u64);
    out.probes.insert("multi_event_txn_delivered_before_predecessor".into(), multi_before_pred as u64);
    let mut sched = Chain::new();
    for o in &plan.ops {
        sched.push_str(&format!("{o:?}"));
    }
    out.schedule_hash = sched.0;
    out.state_hash = chain.0;
    if multi_before_pred && (dups > 0 || out.faults["conflicting_writes"] > 0) {
        out.nontrivial = Some(sched.0);
    }
    for (sig, detail) in &sigs {
        chain.push_str(sig);
        out.violations.push(Violation { signature: sig.clone(), detail: detail.clone() });
    }
    out.event_hash = chain.0;
    out.sample = Some(json!({"txns": plan.txns, "ops": plan.ops.iter().take(20).collect::<Vec<_>>(), "buffer_size": plan.buffer_size, "catchup_mode": plan.catchup_mode, "applied_events": prev_log.len(), "messages_sent": sent.len()}));
    out
}

/// The partition log as (sequence, transaction id, event id).
async fn read_log(db: &sierradb::database::Database) -> Result<Vec<(u64, Uuid, Uuid)>, String> {
    let mut it = db.read_partition(PARTITION, 0, sierradb::IterDirection::Forward).await.map_err(|e| e.to_string())?;
    let mut out = Vec::new();
    while let Some(batch) = it.next_batch(50).await.map_err(|e| e.to_string())? {
        for c in batch {
            for e in c {
                out.push((e.partition_sequence, e.transaction_id, e.event_id));
            }
        }
    }
    Ok(out)
}

#[allow(dead_code)]
fn _t(_: WriteError) {}
