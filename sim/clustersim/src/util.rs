//! Scratch directories, panic capture, id helpers shared by the clustersim engines.

use std::panic::{AssertUnwindSafe, catch_unwind};
use std::path::{Path, PathBuf};
use std::sync::atomic::{AtomicU64, Ordering};

use uuid::Uuid;

static COUNTER: AtomicU64 = AtomicU64::new(0);

fn scratch_base() -> PathBuf {
    let shm = Path::new("/dev/shm");
    if shm.is_dir() { shm.to_path_buf() } else { std::env::temp_dir() }
}

pub fn reap_stale_scratch() {
    let Ok(rd) = std::fs::read_dir(scratch_base()) else { return };
    for e in rd.flatten() {
        let name = e.file_name();
        let Some(name) = name.to_str() else { continue };
        let Some(rest) = name.strip_prefix("verif-") else { continue };
        if let Some(pid) = rest.split('-').next().and_then(|p| p.parse::<u32>().ok()) {
            if !Path::new(&format!("/proc/{pid}")).exists() {
                let _ = std::fs::remove_dir_all(e.path());
            }
        }
    }
}

pub struct Scratch {
    pub path: PathBuf,
}

impl Scratch {
    pub fn new(tag: &str) -> Scratch {
        let n = COUNTER.fetch_add(1, Ordering::Relaxed);
        let path = scratch_base().join(format!("verif-{}-{}-{}", std::process::id(), tag, n));
        let _ = std::fs::remove_dir_all(&path);
        std::fs::create_dir_all(&path).expect("create scratch dir");
        Scratch { path }
    }
    pub fn join(&self, p: &str) -> PathBuf {
        self.path.join(p)
    }
}

impl Drop for Scratch {
    fn drop(&mut self) {
        let _ = std::fs::remove_dir_all(&self.path);
    }
}

pub fn copy_dir(src: &Path, dst: &Path) {
    let _ = std::fs::create_dir_all(dst);
    let Ok(rd) = std::fs::read_dir(src) else { return };
    for e in rd.flatten() {
        let p = e.path();
        let d = dst.join(e.file_name());
        if p.is_dir() {
            copy_dir(&p, &d);
        } else {
            let _ = std::fs::copy(&p, &d);
        }
    }
}

pub fn catch<T>(f: impl FnOnce() -> T) -> Result<T, String> {
    match catch_unwind(AssertUnwindSafe(f)) {
        Ok(v) => Ok(v),
        Err(p) => Err(if let Some(s) = p.downcast_ref::<&str>() { s.to_string() } else if let Some(s) = p.downcast_ref::<String>() { s.clone() } else { "panic".into() }),
    }
}

/// UUID with the 16-bit partition hash embedded at bits 46..61.
pub fn make_id(hash: u16, rnd: u128) -> Uuid {
    let mask: u128 = 0xFFFFu128 << 46;
    let v = (rnd & !mask) | ((hash as u128) << 46);
    let v = (v & !(0xFu128 << 76)) | (0x7u128 << 76);
    Uuid::from_bytes(v.to_be_bytes())
}

pub fn raise_fd_limit() {
    unsafe {
        let mut r = libc::rlimit { rlim_cur: 0, rlim_max: 0 };
        if libc::getrlimit(libc::RLIMIT_NOFILE, &mut r) == 0 && r.rlim_cur < r.rlim_max {
            r.rlim_cur = r.rlim_max;
            let _ = libc::setrlimit(libc::RLIMIT_NOFILE, &r);
        }
    }
}

/// True when every thread of this process except the caller is sleeping (state S/T/Z in
/// /proc/self/task/<tid>/stat): nobody is running, runnable or in disk wait.
pub fn other_threads_all_sleeping() -> bool {
    let me = unsafe { libc::syscall(libc::SYS_gettid) } as i64;
    let Ok(rd) = std::fs::read_dir("/proc/self/task") else { return false };
    for e in rd.flatten() {
        let name = e.file_name();
        let Some(tid) = name.to_str().and_then(|s| s.parse::<i64>().ok()) else { continue };
        if tid == me {
            continue;
        }
        let Ok(stat) = std::fs::read_to_string(e.path().join("stat")) else { continue };
        let Some(pos) = stat.rfind(')') else { continue };
        let state = stat[pos + 1..].trim_start().chars().next().unwrap_or('S');
        if matches!(state, 'R' | 'D') {
            return false;
        }
    }
    true
}
