//! clustersim: engines C (real sierradb-cluster components under a tokio runtime with simulated
//! clock, hook points and transport) and E (real TopologyManager / Behaviour glue over a bus).

mod c07;
mod c08;
mod c09;
mod c10;
mod c12;
mod c14;
mod c22;
mod driver;
mod node;
mod sim;
mod util;

use serde_json::Value;
use simcore::runner::{Engine, Tier};
use simcore::{PropertyInfo, RunOutcome};

const C10_RULE: &str = "per run N in 2..5 real ClusterActors (rf 1..5 <= N) that learn membership from their own heartbeat/ownership gossip, and a PRNG sequence of client transactions (single and multi-event, 1-3 partition keys so writes contend) sent to arbitrary nodes, time advances (1 ms .. 11 s, past write and buffer timeouts), silent link cuts, isolated nodes, crashes and restarts with surviving disks; every remote message (ExecuteTransaction forwards, ReplicateWrite, ConfirmTransaction, PartitionSyncRequest, replies) gets a fate from a content-keyed PRNG: delay, straggler delay up to 15 s, loss (network timeout after 10 s), duplication, unreachable peer. After every operation and after faults stop (+32 s): every node's partition logs are read back; C10: logs gapless, at most one transaction ever seen with a quorum confirmation count per (partition, sequence) across nodes and time, confirmed prefixes of any two nodes agree event for event; C11: every write acknowledged to its client sits whole at its acknowledged sequences on at least a quorum of nodes and carries a quorum count on its coordinator, at that check and every later one. Non-trivial = N>=3, rf>=2, at least one fault fired and at least two acknowledged writes.";
const CLUSTER_REAL: &[&str] = &["sierradb_cluster::ClusterActor (execute/route/forward, transaction::run, ReplicateWrite sender+staleness checks, ConfirmTransaction, PartitionSyncRequest, read handlers)", "PartitionReplicatorActor, ConfirmationActor, SubscriptionManager", "sierradb_topology::Behaviour + TopologyManager inside each actor's libp2p Swarm (heartbeat/timeout intervals run)", "sierradb::Database per node", "kameo actors, mailboxes, serialisation of every remote message (rmp_serde) and the generated inbound dispatch functions", "tokio paused clock"];
const CLUSTER_STUB: &[&str] = &["kameo's libp2p swarm command channel (vendored kameo with a seam: the simulator carries the serialised messages)", "gossipsub propagation (simulated bus)", "TCP/noise/yamux transports are constructed but never connect"];
const CLUSTER_ASSUME: &[&str] = &["a lost request or reply surfaces as NetworkTimeout after 10 s, an unreachable peer as DialFailure, as in kameo's request-response configuration"];

struct ClusterSimEngine;

impl Engine for ClusterSimEngine {
    fn name() -> &'static str {
        "clustersim"
    }

    fn properties() -> Vec<PropertyInfo> {
        vec![PropertyInfo {
            id: "C07",
            level: "exploration",
            rule: "per run one real ClusterActor with configured replication factor in {1,2,3,5} (quorum 1..3) over a store populated with 1-18 single/multi-event transactions across 1-3 streams carrying arbitrary confirmation counts (below/at/above quorum); then a PRNG interleaving of real ConfirmTransaction messages (raising counts, stale lower counts, duplicates, any order), node restarts, and reads of every kind: ReadEvent of any event, ReadPartition and ReadStream with PRNG start/end/count (including ranges that straddle the watermark and count limits inside transactions), GetPartitionSequence, GetStreamVersion. The model keeps the maximum count delivered per transaction; its watermark is the length of the longest prefix whose transactions all carry a quorum count. Every answer is checked: no returned event, sequence or version at or beyond the model watermark. Non-trivial = the final watermark lies strictly inside the log and a multi-event transaction exists.",
            quick_runs: 2400,
            thorough_runs: 20000,
            real_components: &["sierradb_cluster::ClusterActor read handlers (ReadEvent, ReadPartition, ReadStream, GetPartitionSequence, GetStreamVersion), ConfirmTransaction handler", "ConfirmationActor / BucketConfirmationManager / AtomicWatermark", "sierradb::Database", "TopologyManager inside the actor's swarm (single node)"],
            stub_components: &["no peers: forwarding of reads to other replicas is not exercised here (it is in the C10/C11 cluster runs)"],
            assumptions: &["stored confirmation counts never decrease (C08), so the model keeps the maximum count delivered"],
        }, PropertyInfo {
            id: "C08",
            level: "fault_enumeration",
            rule: "per run: rf in {1,2,3,5}, a partition of 2-16 single/multi-event transactions stored in a real Database with target counts below/at/above quorum, and a PRNG permutation of confirmation deliveries (final count of every transaction at least once plus stale lower counts, duplicates and single-version deliveries); the on-disk count is written before each update is reported. Live oracle after every update (monotone, <= prefix of versions whose maximum reported count reaches quorum, = that prefix at the end). Crash enumeration: the confirmation directory is snapshotted at every step of every persist_bucket_state (hook) plus every 32-byte prefix of the temp file; a fresh manager is initialised from each snapshot against the database. Non-trivial = a stale lower count delivered after a higher one above the watermark and a snapshot between the two renames.",
            quick_runs: 6000,
            thorough_runs: 120000,
            real_components: &["sierradb_cluster::confirmation::BucketConfirmationManager / PartitionConfirmationState / AtomicWatermark", "sierradb::Database (set_confirmations, read_partition)", "tokio::fs on the blocking pool (awaited)"],
            stub_components: &["ConfirmationActor mailbox (the manager is driven directly)", "wall/monotonic clock (simulated through the hook shim)"],
            assumptions: &["deliveries follow ConfirmTransaction's order: on-disk count first, then the update"],
        }, PropertyInfo {
            id: "C09",
            level: "exploration",
            rule: "per run 1 or 3 real ClusterActors (rf 1 or 3), real client writes (single/multi-event, 1-2 partition keys, 1-2 streams, in one run out of four preceded by 55-115 writes to one stream so that history spans several read batches) and a subscriber played by the simulator: real Subscribe messages for partition, multi-partition, all-partition, stream and multi-stream matchers with start None / 0 / k and window 1/2/5/1000 on any node, acknowledgements with PRNG lag, time advances, and for 3 nodes message loss, delay, stragglers (late ConfirmTransaction leaves watermark holes), link cuts and isolation. After every operation the update channels are drained: cursors consecutive, per partition sequences / per stream versions strictly consecutive from the start position (no gap, duplicate or reordering), only matching events, unacknowledged deliveries <= window. After faults stop and everything is acknowledged: every delivered event lies inside the node's confirmed prefix and equals the log, and everything confirmed from the start position (or, for a from-now subscription, from what was confirmed at subscribe time) has been delivered. Non-trivial = at least one subscription received records and at least two writes were acknowledged.",
            quick_runs: 800,
            thorough_runs: 12000,
            real_components: &["sierradb_cluster::subscription (SubscriptionManager, Subscription::run/read_*_history/send_record, SubscriptionMatcher)", "ConfirmationActor broadcast (UpdateConfirmationWithBroadcast / UpdateConfirmation)", "ClusterActor write and confirmation paths, Database, topology (as C10)"],
            stub_components: CLUSTER_STUB,
            assumptions: &["the RESP layer (ESUB/EPSUB parsing and acknowledgement commands) is not in the loop: the simulator holds the update channel and the acknowledgement watch channel that the server connection would hold"],
        }, PropertyInfo {
            id: "C10",
            level: "exploration",
            rule: C10_RULE,
            quick_runs: 700,
            thorough_runs: 12000,
            real_components: CLUSTER_REAL,
            stub_components: CLUSTER_STUB,
            assumptions: CLUSTER_ASSUME,
        }, PropertyInfo {
            id: "C11",
            level: "exploration",
            rule: C10_RULE,
            quick_runs: 700,
            thorough_runs: 12000,
            real_components: CLUSTER_REAL,
            stub_components: CLUSTER_STUB,
            assumptions: CLUSTER_ASSUME,
        }, PropertyInfo {
            id: "C12",
            level: "exploration",
            rule: "per run a ground-truth log of 4-44 single/multi-event transactions for one partition; the simulated coordinator sends them as ReplicateWrite messages to the real PartitionReplicatorActor in a windowed or full PRNG shuffle with duplicates (same transaction id), conflicts (other transaction, same sequence), stale and far-ahead writes, buffer sizes {1,2,4,64}, withheld writes, clock advances past the catch-up and buffer timeouts, and catch-up answers {error, empty, partial, complete} through the transport seam. At every quiescent point: the partition log only grows, every applied transaction sits whole and once at the sequence its message assigned, Ok replies match the log, no unanswered unexpired write is left at or below the next expected sequence; after the last delivery every write is answered within buffer+catch-up timeout; the actor must stay alive. Non-trivial = a multi-event transaction delivered before its predecessor together with a duplicate or conflict.",
            quick_runs: 3200,
            thorough_runs: 40000,
            real_components: &["sierradb_cluster::write::replicate::PartitionReplicatorActor (buffer_write, pop_next_buffered_write, write_transaction, detect_and_handle_gaps, PartitionSyncResponse)", "OrderedQueue / TimeoutOrderedQueue", "ConfirmationActor", "sierradb::Database", "kameo local actors and mailboxes", "tokio paused clock"],
            stub_components: &["the coordinator (simulator) and the network: catch-up requests go to the transport seam", "ClusterActor's sender/staleness checks in front of the replicator are not run here", "failsafe breaker inside the replicator reads the real monotonic clock"],
            assumptions: &["the first write applied at a sequence defines that sequence (a conflicting write that arrives first is a legitimate transaction)"],
        }, PropertyInfo {
            id: "C22",
            level: "exploration",
            rule: "per run one real ClusterActor (N = 1, rf = 1; 1..32 partitions) and the real RESP server serving one client connection over an in-memory duplex pipe; the simulator is the client and sends a PRNG history of 8-78 commands from the documented grammar as RESP3 arrays, delivered in PRNG chunks (partial frames): EAPPEND and EMAPPEND (1-4 events over 1-4 streams, new and existing streams, multi-stream transactions, every EXPECTED_VERSION form right and wrong, explicit and default partition keys, explicit event ids, boundary timestamps 0 / now / u64::MAX/10^6 and beyond, strict-versioning on or off), EGET of known and unknown ids, ESCAN and EPSCAN with PRNG start/end/count (- and +, count 0..100, by partition id or key), ESVER, EPSEQ, ESUB/EPSUB <target> FROM n WINDOW w with their pushed messages (cursor consecutive, contents and order equal to the model from the start position, outstanding <= window, complete after everything is acknowledged) and EACK (known and unknown subscription), PING, and 12 kinds of invalid request; one append in three has a read pipelined behind it in the same write, half of those with the confirmation actor's mailbox held back (hook K7). A reference event-store model decides accept/reject and every reply field: sequences and per-event stream versions reported by appends, event contents and timestamps, scan contents, has_more never false while events of the requested range were left out, versions and sequences; invalid requests must answer an error and the connection must stay usable (a closed connection is a violation). Non-trivial = at least three events stored.",
            quick_runs: 4000,
            thorough_runs: 40000,
            real_components: &["sierradb_server::server (Conn::run request loop, frame decoding, reply encoding) and every request handler (request/*.rs, parser.rs)", "sierradb_cluster::ClusterActor write and read paths (single node)", "sierradb::Database"],
            stub_components: &["the TCP socket (in-memory duplex pipe, hook S1)", "only the single-stream / single-partition forms of ESUB/EPSUB are driven here; the multi and MAP forms are checked below the RESP layer in C09"],
            assumptions: &["single node with rf = 1: every accepted append is confirmed at once, so the model is the plain event-store model"],
        }, PropertyInfo {
            id: "C14",
            level: "exploration",
            rule: "per run a configuration (N in 1..12 or {255,256,257,300,512,1000}, buckets, partitions, rf 1..12) and 1-5 live nodes with boundary-biased configured indices, each a real topology Behaviour around a real TopologyManager; a PRNG sequence of connection up/down (real FromSwarm events), silent partitions, node restarts with a new alive_since, and time advances that fire the real heartbeat and timeout intervals; every published message is broadcast over the simulated bus with per-recipient delay, loss and reordering. After every delivery/tick: each node's replica set of every partition is exactly the owners among the nodes it knows live (itself included), no duplicates, at most min(rf,N); any two nodes with identical membership knowledge hold identical replica sets and identical get_available_replicas order. After faults stop and all nodes are connected: membership converges within two heartbeat rounds and all nodes agree. Static part (1 in 3 runs and all large N): over all N configured nodes every partition has exactly min(rf,N) owners and, with all members known, its replica set is exactly those owners. Non-trivial = at least 3 live nodes and at least two ownership messages delivered.",
            quick_runs: 6000,
            thorough_runs: 120000,
            real_components: &["sierradb_topology::TopologyManager", "sierradb_topology::Behaviour message glue (heartbeat/ownership encode+decode, add_explicit_peer, ConnectionEstablished/Closed handling, heartbeat and timeout intervals via poll)", "tokio paused clock", "libp2p gossipsub Behaviour object (constructed, connection bookkeeping only)"],
            stub_components: &["gossipsub message propagation and the libp2p swarm/transport (simulated bus delivers the published bytes)", "wall/monotonic clock (simulated through the hook shim)"],
            assumptions: &["a published message reaches every node connected to the sender through links that are up (gossip mesh), at most once"],
        }]
    }

    fn plan(prop: &str, tier: Tier, run_seed: u64) -> Value {
        match prop {
            "C07" => c07::plan(tier, run_seed),
            "C08" => c08::plan(tier, run_seed),
            "C09" => c09::plan(tier, run_seed),
            "C10" | "C11" => c10::plan(tier, run_seed),
            "C12" => c12::plan(tier, run_seed),
            "C14" => c14::plan(tier, run_seed),
            "C22" => c22::plan(tier, run_seed),
            _ => unreachable!(),
        }
    }

    fn execute(prop: &str, plan: &Value) -> RunOutcome {
        match prop {
            "C07" => c07::execute(plan),
            "C08" => c08::execute(plan),
            "C09" => c09::execute(plan),
            "C10" | "C11" => c10::execute(prop, plan),
            "C12" => c12::execute(plan),
            "C14" => c14::execute(plan),
            "C22" => c22::execute(plan),
            _ => unreachable!(),
        }
    }

    fn init_process() {
        util::reap_stale_scratch();
        util::raise_fd_limit();
        let _ = sim::sim();
    }
}

fn main() {
    simcore::runner::main::<ClusterSimEngine>()
}
