//! clustersim: engines C (real sierradb-cluster components under a tokio runtime with simulated
//! clock, hook points and transport) and E (real TopologyManager / Behaviour glue over a bus).

mod c08;
mod sim;
mod util;

use serde_json::Value;
use simcore::runner::{Engine, Tier};
use simcore::{PropertyInfo, RunOutcome};

struct ClusterSimEngine;

impl Engine for ClusterSimEngine {
    fn name() -> &'static str {
        "clustersim"
    }

    fn properties() -> Vec<PropertyInfo> {
        vec![PropertyInfo {
            id: "C08",
            level: "fault_enumeration",
            rule: "per run: rf in {1,2,3,5}, a partition of 2-16 single/multi-event transactions stored in a real Database with target counts below/at/above quorum, and a PRNG permutation of confirmation deliveries (final count of every transaction at least once plus stale lower counts, duplicates and single-version deliveries); the on-disk count is written before each update is reported. Live oracle after every update (monotone, <= prefix of versions whose maximum reported count reaches quorum, = that prefix at the end). Crash enumeration: the confirmation directory is snapshotted at every step of every persist_bucket_state (hook) plus every 32-byte prefix of the temp file; a fresh manager is initialised from each snapshot against the database. Non-trivial = a stale lower count delivered after a higher one above the watermark and a snapshot between the two renames.",
            quick_runs: 4000,
            thorough_runs: 120000,
            real_components: &["sierradb_cluster::confirmation::BucketConfirmationManager / PartitionConfirmationState / AtomicWatermark", "sierradb::Database (set_confirmations, read_partition)", "tokio::fs on the blocking pool (awaited)"],
            stub_components: &["ConfirmationActor mailbox (the manager is driven directly)", "wall/monotonic clock (simulated through the hook shim)"],
            assumptions: &["deliveries follow ConfirmTransaction's order: on-disk count first, then the update"],
        }]
    }

    fn plan(prop: &str, tier: Tier, run_seed: u64) -> Value {
        match prop {
            "C08" => c08::plan(tier, run_seed),
            _ => unreachable!(),
        }
    }

    fn execute(prop: &str, plan: &Value) -> RunOutcome {
        match prop {
            "C08" => c08::execute(plan),
            _ => unreachable!(),
        }
    }

    fn init_process() {
        util::reap_stale_scratch();
        util::raise_fd_limit();
        let _ = sim::sim();
    }
}

fn main() {
    simcore::runner::main::<ClusterSimEngine>()
}
