//! C07 — cluster reads only expose the quorum-confirmed prefix of a partition.
//! One real ClusterActor (configured replication factor 1..5, so quorum 1..3) over a store that was
//! populated with transactions carrying arbitrary confirmation counts. The simulator then delivers
//! real `ConfirmTransaction` messages in a PRNG order (raising counts, stale lower counts,
//! duplicates) interleaved with reads of every kind and parameter; after each delivery the real
//! ConfirmationActor moves the watermark. Every read answer is compared with the model: nothing at
//! or above the model's confirmed prefix may be revealed.

use std::collections::BTreeMap;
use std::sync::{Arc, Mutex};

use serde::{Deserialize, Serialize};
use serde_json::{Value, json};
use sierradb::StreamId;
use sierradb::database::{ExpectedVersion, NewEvent, Transaction};
use sierradb::id::{set_uuid_flag, uuid_to_partition_hash};
use sierradb_cluster::read::{GetPartitionSequence, GetStreamVersion, ReadEvent, ReadPartition, ReadStream};
use sierradb_cluster::write::confirm::ConfirmTransaction;
use simcore::runner::Tier;
use simcore::{Chain, Rng, RunOutcome, Violation};
use smallvec::SmallVec;
use uuid::Uuid;

use crate::node::{Cluster, ClusterCfg, NetCfg};
use crate::util::make_id;
use crate::{driver, sim};

#[derive(Clone, Debug, Serialize, Deserialize)]
pub struct TxnSpec {
    pub events: usize,
    /// streams of its events (index into the run's stream names)
    pub streams: Vec<usize>,
    /// confirmation count stored with the transaction before the node starts
    pub initial: u8,
}

#[derive(Clone, Debug, Serialize, Deserialize, PartialEq)]
#[serde(tag = "op")]
pub enum Op {
    /// a ConfirmTransaction message for transaction `txn` with this count
    Confirm { txn: usize, count: u8 },
    GetEvent { txn: usize, event: usize },
    ScanPartition { start: u64, end: Option<u64>, count: u64 },
    ScanStream { stream: usize, start: u64, end: Option<u64>, count: u64 },
    PartitionSequence,
    StreamVersion { stream: usize },
    /// the node restarts (watermark re-derived from the stored counts)
    Restart,
}

#[derive(Clone, Debug, Serialize, Deserialize)]
pub struct C07Plan {
    pub rf: u8,
    pub buckets: u16,
    pub partitions: u16,
    pub streams: usize,
    pub txns: Vec<TxnSpec>,
    pub ops: Vec<Op>,
    pub seed: u64,
}

pub fn plan(tier: Tier, seed: u64) -> Value {
    let mut rng = Rng::new(seed);
    let rf = *rng.pick(&[1u8, 2, 3, 3, 5]);
    let quorum = rf / 2 + 1;
    let buckets = *rng.pick(&[1u16, 2]);
    let partitions = *rng.pick(&[1u16, 2, 4]);
    let streams = 1 + rng.usize_below(3);
    let n = 1 + rng.usize_below(match tier { Tier::Quick => 10, Tier::Thorough => 18 });
    let mut txns = Vec::new();
    for _ in 0..n {
        let events = if rng.chance(1, 2) { 1 } else { 2 + rng.usize_below(3) };
        let st = (0..events).map(|_| rng.usize_below(streams)).collect();
        // a confirmed prefix of random length, then a mixture
        let initial = match rng.below(4) {
            0 => rng.below(quorum as u64) as u8,
            _ => quorum + rng.below((rf - quorum + 1) as u64) as u8,
        };
        txns.push(TxnSpec { events, streams: st, initial });
    }
    let total: u64 = txns.iter().map(|t| t.events as u64).sum();
    let nops = 6 + rng.usize_below(match tier { Tier::Quick => 20, Tier::Thorough => 40 });
    let mut ops = Vec::new();
    for _ in 0..nops {
        let t = rng.usize_below(n);
        let op = match rng.weighted(&[5, 3, 5, 4, 2, 2, 1]) {
            0 => Op::Confirm { txn: t, count: if rng.chance(2, 3) { quorum + rng.below((rf - quorum + 1) as u64) as u8 } else { rng.below(rf as u64 + 1) as u8 } },
            1 => Op::GetEvent { txn: t, event: rng.usize_below(txns[t].events) },
            2 => {
                let start = if rng.chance(1, 3) { 0 } else { rng.below(total + 2) };
                let end = match rng.below(3) {
                    0 => None,
                    1 => Some(start + rng.below(total + 2)),
                    _ => Some(rng.below(total + 2)),
                };
                Op::ScanPartition { start, end, count: *rng.pick(&[1u64, 2, 3, 100, 100]) }
            }
            3 => {
                let start = if rng.chance(1, 2) { 0 } else { rng.below(6) };
                let end = match rng.below(3) {
                    0 => None,
                    _ => Some(start + rng.below(6)),
                };
                Op::ScanStream { stream: rng.usize_below(streams), start, end, count: *rng.pick(&[1u64, 2, 100, 100]) }
            }
            4 => Op::PartitionSequence,
            5 => Op::StreamVersion { stream: rng.usize_below(streams) },
            _ => Op::Restart,
        };
        ops.push(op);
    }
    serde_json::to_value(C07Plan { rf, buckets, partitions, streams, txns, ops, seed: rng.next_u64() >> 8 }).unwrap()
}

#[derive(Clone, Debug)]
struct MEvent {
    id: Uuid,
    seq: u64,
    stream: usize,
    version: u64,
    txn: usize,
}

struct Model {
    quorum: u8,
    events: Vec<MEvent>,
    counts: Vec<u8>,
    txn_first: Vec<u64>,
}

impl Model {
    /// number of events in the longest prefix whose transactions all carry a quorum count
    fn watermark(&self) -> u64 {
        let mut w = 0u64;
        for e in &self.events {
            if self.counts[e.txn] >= self.quorum { w = e.seq + 1 } else { break }
        }
        w
    }
}

pub fn execute(plan_v: &Value) -> RunOutcome {
    let plan: C07Plan = match serde_json::from_value(plan_v.clone()) {
        Ok(p) => p,
        Err(e) => {
            let mut out = RunOutcome::default();
            out.violations.push(Violation { signature: "C07/harness/bad-plan/parse".into(), detail: e.to_string() });
            return out;
        }
    };
    match crate::util::catch(|| run(plan)) {
        Ok(out) => out,
        Err(panic) => {
            let mut out = RunOutcome::default();
            out.evaluations = 1;
            kameo::remote::sim::install(None);
            out.violations.push(Violation { signature: "C07/harness/panic/run".into(), detail: panic });
            out
        }
    }
}

fn run(plan: C07Plan) -> RunOutcome {
    let simh = sim::sim();
    simh.reset_clock();
    driver::reset_counters();
    futures::executor::block_on(kameo::remote::sim::reset_run(1000));
    let cfg = ClusterCfg { n: 1, buckets: plan.buckets, partitions: plan.partitions, rf: plan.rf, hb_interval_ms: 1000, hb_timeout_ms: 3000, buffer_size: 16, buffer_timeout_ms: 8_000, catchup_timeout_ms: 1_000 };
    let net = NetCfg { seed: plan.seed, loss_pct: 0, dup_pct: 0, max_delay_ms: 0, straggler_pct: 0, straggler_ms: 0 };
    let mut cluster = Cluster::new(cfg, net, "c07");
    let mut out = RunOutcome::default();
    let quorum = plan.rf / 2 + 1;

    // populate the store before the node starts
    let pk = Uuid::from_u128(0x2000_0000_0000_4000_8000_0000_0000_0000u128 | (plan.seed as u128 & 0xffff_ffff));
    let hash = uuid_to_partition_hash(pk);
    let partition = hash % plan.partitions;
    let names: Vec<String> = (0..plan.streams).map(|i| format!("c07-{i}")).collect();
    let mut model = Model { quorum, events: Vec::new(), counts: Vec::new(), txn_first: Vec::new() };
    let mut versions = vec![0u64; plan.streams];
    let mut rng = Rng::new(plan.seed ^ 0x5151);
    let mut txn_ids = Vec::new();
    {
        let db = cluster.open_db(0);
        let mut seq = 0u64;
        for (ti, t) in plan.txns.iter().enumerate() {
            let evs: SmallVec<[NewEvent; 4]> = (0..t.events)
                .map(|e| NewEvent {
                    event_id: make_id(hash, ((rng.next_u64() as u128) << 64) | rng.next_u64() as u128),
                    stream_id: StreamId::new(names[t.streams[e]].clone()).unwrap(),
                    stream_version: ExpectedVersion::Any,
                    event_name: "E".into(),
                    timestamp: 1_700_000_000_000_000_000,
                    metadata: vec![],
                    payload: vec![e as u8; 4],
                })
                .collect();
            let ids: Vec<Uuid> = evs.iter().map(|e| e.event_id).collect();
            let txn_id = set_uuid_flag(Uuid::from_u128(((rng.next_u64() as u128) << 64) | rng.next_u64() as u128), t.events == 1);
            let txn = Transaction::new(pk, partition, evs).unwrap().with_transaction_id(txn_id).with_confirmation_count(t.initial);
            futures::executor::block_on(db.append_events(txn)).expect("populate");
            model.txn_first.push(seq);
            for (e, id) in ids.iter().enumerate() {
                let s = t.streams[e];
                model.events.push(MEvent { id: *id, seq, stream: s, version: versions[s], txn: ti });
                versions[s] += 1;
                seq += 1;
            }
            model.counts.push(t.initial);
            txn_ids.push((txn_id, ids));
        }
        futures::executor::block_on(db.shutdown());
        db.reader_pool().install(|with_readers| with_readers(|readers| readers.clear()));
        drop(db);
        sim::rebaseline();
    }
    cluster.start_node(0);
    cluster.run_until(50);

    let violations: std::cell::RefCell<Vec<Violation>> = std::cell::RefCell::new(Vec::new());
    let report = |clause: &str, shape: &str, detail: String| {
        let sig = format!("C07/{clause}/ClusterActor/{shape}");
        let mut v = violations.borrow_mut();
        if !v.iter().any(|x| x.signature == sig) {
            v.push(Violation { signature: sig, detail });
        }
    };
    let mut sched = Chain::new();
    let mut probes: BTreeMap<String, u64> = BTreeMap::new();
    for op in &plan.ops {
        sched.push_str(&format!("{op:?}"));
        out.steps += 1;
        out.evaluations += 1;
        let w = model.watermark();
        if cluster.trace {
            eprintln!("op {op:?} model watermark {w} counts {:?}", model.counts);
        }
        let Some(actor) = cluster.nodes[0].actor.clone() else { break };
        match op {
            Op::Confirm { txn, count } if *txn < plan.txns.len() => {
                let (txn_id, ids) = &txn_ids[*txn];
                let first = model.txn_first[*txn];
                let msg = ConfirmTransaction { partition_id: partition, transaction_id: *txn_id, event_ids: ids.iter().copied().collect(), confirmation_versions: (0..ids.len() as u64).map(|i| first + i + 1).collect(), confirmation_count: *count };
                let res: Arc<Mutex<Option<String>>> = Arc::new(Mutex::new(None));
                let r = res.clone();
                cluster.spawn_on(0, async move {
                    let x = actor.ask(msg).await;
                    *r.lock().unwrap() = Some(format!("{:?}", x.map_err(|e| e.to_string())));
                });
                cluster.settle();
                // stored counts never go down (C08); the model keeps the maximum
                *out.faults.entry(if *count < model.counts[*txn] { "stale_lower_confirmation_count" } else if *count == model.counts[*txn] { "duplicate_confirmation" } else { "confirmation_out_of_order_or_new" }.to_string()).or_insert(0) += 1;
                if *count > model.counts[*txn] {
                    model.counts[*txn] = *count;
                }
                if model.watermark() > w {
                    *probes.entry("watermark_advanced_by_confirmation".into()).or_insert(0) += 1;
                }
            }
            Op::GetEvent { txn, event } if *txn < plan.txns.len() && *event < txn_ids[*txn].1.len() => {
                let id = txn_ids[*txn].1[*event];
                let me = model.events.iter().find(|e| e.id == id).unwrap().clone();
                let res = ask(&cluster, actor.clone(), ReadEvent::new(id));
                match res {
                    Ok(Some(ev)) => {
                        if me.seq >= w {
                            report("event-beyond-watermark-returned", "ReadEvent", format!("ReadEvent returned the event at partition sequence {} (confirmation count {}), the confirmed prefix has {w} events (quorum {quorum})", ev.partition_sequence, ev.confirmation_count));
                        }
                    }
                    Ok(None) => {
                        if me.seq < w {
                            *probes.entry("confirmed_event_not_returned".into()).or_insert(0) += 1;
                        }
                    }
                    Err(e) => report("read-error", "ReadEvent", e),
                }
            }
            Op::ScanPartition { start, end, count } => {
                let res = ask(&cluster, actor.clone(), ReadPartition { partition_id: partition, start_sequence: *start, end_sequence: *end, count: *count });
                match res {
                    Ok(pe) => {
                        if let Some(bad) = pe.events.iter().find(|e| e.partition_sequence >= w) {
                            report("event-beyond-watermark-returned", "ReadPartition", format!("ReadPartition(start {start}, end {end:?}, count {count}) returned partition sequence {} (confirmation count {}); the confirmed prefix has {w} events (quorum {quorum})", bad.partition_sequence, bad.confirmation_count));
                        }
                        if pe.events.iter().any(|e| e.partition_sequence < *start || end.map(|x| e.partition_sequence > x).unwrap_or(false)) {
                            report("event-outside-range-returned", "ReadPartition", format!("ReadPartition(start {start}, end {end:?}) returned an event outside the range"));
                        }
                        if !pe.events.is_empty() {
                            *probes.entry("partition_scan_returned_events".into()).or_insert(0) += 1;
                        }
                        if *start <= w && end.map(|e| e >= w).unwrap_or(true) && (w as usize) < model.events.len() {
                            *probes.entry("partition_scan_reaching_the_watermark".into()).or_insert(0) += 1;
                        }
                    }
                    Err(e) => report("read-error", "ReadPartition", e),
                }
            }
            Op::ScanStream { stream, start, end, count } if *stream < names.len() => {
                let res = ask(&cluster, actor.clone(), ReadStream { partition_id: partition, stream_id: StreamId::new(names[*stream].clone()).unwrap(), start_version: *start, end_version: *end, count: *count });
                match res {
                    Ok(se) => {
                        if let Some(bad) = se.events.iter().find(|e| e.partition_sequence >= w) {
                            report("event-beyond-watermark-returned", "ReadStream", format!("ReadStream(start {start}, end {end:?}, count {count}) returned stream version {} at partition sequence {} (confirmation count {}); the confirmed prefix has {w} events (quorum {quorum})", bad.stream_version, bad.partition_sequence, bad.confirmation_count));
                        }
                        if model.events.iter().any(|e| e.stream == *stream && e.seq >= w) && end.is_none() && *start == 0 {
                            *probes.entry("stream_scan_reaching_the_watermark".into()).or_insert(0) += 1;
                        }
                    }
                    Err(e) => report("read-error", "ReadStream", e),
                }
            }
            Op::PartitionSequence => match ask(&cluster, actor.clone(), GetPartitionSequence { partition_id: partition }) {
                Ok(seq) => {
                    let reported = seq.map(|s| s + 1).unwrap_or(0);
                    if reported > w {
                        report("sequence-beyond-watermark-returned", "GetPartitionSequence", format!("GetPartitionSequence answered {seq:?}; the confirmed prefix has {w} events (quorum {quorum})"));
                    }
                }
                Err(e) => report("read-error", "GetPartitionSequence", e),
            },
            Op::StreamVersion { stream } if *stream < names.len() => match ask(&cluster, actor.clone(), GetStreamVersion { partition_id: partition, stream_id: StreamId::new(names[*stream].clone()).unwrap() }) {
                Ok(ver) => {
                    let confirmed = model.events.iter().filter(|e| e.stream == *stream && e.seq < w).map(|e| e.version).max();
                    if ver > confirmed {
                        report("version-beyond-watermark-returned", "GetStreamVersion", format!("GetStreamVersion answered {ver:?}; the latest version of the stream inside the confirmed prefix ({w} events) is {confirmed:?}"));
                    }
                }
                Err(e) => report("read-error", "GetStreamVersion", e),
            },
            Op::Restart => {
                cluster.crash_node(0);
                cluster.start_node(0);
                cluster.run_until(cluster.now_ms + 20);
                *probes.entry("node_restarted".into()).or_insert(0) += 1;
                *out.faults.entry("node_restart".into()).or_insert(0) += 1;
            }
            _ => {}
        }
        if !violations.borrow().is_empty() {
            break;
        }
    }
    out.violations = violations.into_inner();
    let w = model.watermark();
    if (w as usize) < model.events.len() && w > 0 && plan.txns.iter().any(|t| t.events > 1) {
        let mut c = Chain::new();
        c.push_u64(sched.0);
        c.push_u64(w);
        out.nontrivial = Some(c.0);
    }
    out.probes = probes;
    out.schedule_hash = sched.0;
    let mut st = Chain::new();
    for c in &model.counts {
        st.push_u64(*c as u64);
    }
    st.push_u64(plan.rf as u64);
    out.state_hash = st.0;
    let mut eh = Chain::new();
    eh.push_u64(st.0);
    eh.push_u64(sched.0);
    eh.push_u64(out.violations.len() as u64);
    out.event_hash = eh.0;
    out.sim_nanos = cluster.now_ms * 1_000_000;
    out.evaluations = out.evaluations.max(1);
    out.sample = Some(json!({"rf": plan.rf, "txns": plan.txns.len(), "ops": plan.ops.len(), "final_watermark": w, "events": model.events.len()}));
    cluster.shutdown();
    out
}

/// One request to the node's actor, run to completion on the node's runtime.
fn ask<M, T, E>(cluster: &Cluster, actor: kameo::actor::ActorRef<sierradb_cluster::ClusterActor>, msg: M) -> Result<T, String>
where
    M: Send + 'static,
    T: Send + 'static,
    E: std::fmt::Display + std::fmt::Debug + Send + 'static,
    sierradb_cluster::ClusterActor: kameo::message::Message<M, Reply = kameo::reply::DelegatedReply<Result<T, E>>>,
{
    let slot: Arc<Mutex<Option<Result<T, String>>>> = Arc::new(Mutex::new(None));
    let s = slot.clone();
    cluster.spawn_on(0, async move {
        let res = actor.ask(msg).await;
        *s.lock().unwrap() = Some(res.map_err(|e| e.to_string()));
    });
    let start = std::time::Instant::now();
    loop {
        cluster.quiesce_public();
        if let Some(r) = slot.lock().unwrap().take() {
            return r;
        }
        if start.elapsed().as_secs() > 90 {
            return Err("read never answered".into());
        }
    }
}
