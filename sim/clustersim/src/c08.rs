//! C08 — the confirmed watermark is sound, monotone and survives restarts.
//! Real `BucketConfirmationManager` + real `Database` on a tokio current-thread runtime; delivery
//! orders from the plan; crash snapshots of the confirmation directory at every step of every
//! `persist_bucket_state` (hook K5) plus every 32-byte prefix of the temp file.

use std::cell::RefCell;
use std::collections::{BTreeMap, HashSet};
use std::path::{Path, PathBuf};
use std::rc::Rc;
use std::time::Duration;

use serde::{Deserialize, Serialize};
use serde_json::{Value, json};
use sierradb::StreamId;
use sierradb::database::{Database, DatabaseBuilder, ExpectedVersion, NewEvent, Transaction};
use sierradb::id::{set_uuid_flag, uuid_to_partition_hash};
use sierradb_cluster::confirmation::BucketConfirmationManager;
use simcore::runner::Tier;
use simcore::{Chain, Rng, RunOutcome, Violation};
use smallvec::SmallVec;
use uuid::Uuid;

use crate::util::{Scratch, copy_dir, make_id};

#[derive(Clone, Debug, Serialize, Deserialize)]
pub struct TxnSpec {
    pub events: usize,
    pub target: u8,
}

#[derive(Clone, Debug, Serialize, Deserialize)]
pub struct Delivery {
    pub txn: usize,
    pub count: u8,
    /// deliver only this version of the transaction (None: all of its versions, as the real flow does)
    #[serde(default)]
    pub only_version: Option<usize>,
}

#[derive(Clone, Debug, Serialize, Deserialize)]
pub struct C08Plan {
    pub rf: u8,
    pub buckets: u16,
    pub partition: u16,
    pub txns: Vec<TxnSpec>,
    pub ops: Vec<Delivery>,
    pub seed: u64,
    /// advance the simulated clock by this many ms between deliveries (drives time-based persistence)
    pub step_ms: u64,
    pub crash_checks: bool,
    /// initialise the manager before the transactions are stored: it then hears of a version for the
    /// first time through its confirmation report, so reports can leave holes above the watermark
    #[serde(default)]
    pub manager_first: bool,
}

pub fn plan(tier: Tier, seed: u64) -> Value {
    let mut rng = Rng::new(seed);
    let rf = *rng.pick(&[1u8, 2, 3, 3, 5]);
    let quorum = rf / 2 + 1;
    let buckets = *rng.pick(&[1u16, 2, 4]);
    let partition = rng.below(8) as u16;
    let n = 2 + rng.usize_below(match tier { Tier::Quick => 8, Tier::Thorough => 14 });
    let mut txns = Vec::new();
    for _ in 0..n {
        let events = if rng.chance(1, 2) { 1 } else { 2 + rng.usize_below(3) };
        // most reach quorum, some stay below
        let target = if rng.chance(1, 6) { rng.below(quorum as u64) as u8 } else { quorum + rng.below((rf - quorum + 1) as u64) as u8 };
        txns.push(TxnSpec { events, target });
    }
    let mut ops = Vec::new();
    // in half of the runs the reports of a transaction's versions travel separately (the manager's
    // API is per version), which leaves holes above the watermark for a while
    let split = rng.chance(1, 2);
    for (i, t) in txns.iter().enumerate() {
        // the final count at least once, plus stale lower counts and duplicates
        if split && t.events > 1 {
            for v in 0..t.events {
                ops.push(Delivery { txn: i, count: t.target, only_version: Some(v) });
            }
        } else {
            ops.push(Delivery { txn: i, count: t.target, only_version: None });
        }
        let extra = rng.below(3);
        for _ in 0..extra {
            let c = if t.target > 0 && rng.chance(2, 3) { rng.below(t.target as u64 + 1) as u8 } else { t.target };
            let only = if t.events > 1 && rng.chance(1, 4) { Some(rng.usize_below(t.events)) } else { None };
            ops.push(Delivery { txn: i, count: c, only_version: only });
        }
    }
    rng.shuffle(&mut ops);
    serde_json::to_value(C08Plan { rf, buckets, partition, txns, ops, seed: rng.next_u64() >> 8, step_ms: *rng.pick(&[0u64, 10, 2000, 6000]), crash_checks: true, manager_first: rng.chance(1, 2) }).unwrap()
}

struct Snapshot {
    dir: PathBuf,
    step: u64,
    observed_watermark: u64,
}

pub fn execute(plan_v: &Value) -> RunOutcome {
    let plan: C08Plan = match serde_json::from_value(plan_v.clone()) {
        Ok(p) => p,
        Err(e) => {
            let mut out = RunOutcome::default();
            out.violations.push(Violation { signature: "C08/harness/bad-plan/parse".into(), detail: e.to_string() });
            return out;
        }
    };
    let rt = tokio::runtime::Builder::new_current_thread().enable_all().build().expect("runtime");
    rt.block_on(run(plan))
}

fn quorum(rf: u8) -> u8 {
    rf / 2 + 1
}

async fn run(plan: C08Plan) -> RunOutcome {
    let sim = crate::sim::sim();
    sim.reset_clock();
    let scratch = Scratch::new("c08");
    let dir = scratch.join("data");
    let mut sigs: BTreeMap<String, String> = BTreeMap::new();
    let mut chain = Chain::new();
    let mut evals = 0u64;
    let mut violation = |sigs: &mut BTreeMap<String, String>, clause: &str, site: &str, shape: &str, detail: String| {
        sigs.entry(format!("C08/{clause}/{site}/{shape}")).or_insert(detail);
    };
    let db = DatabaseBuilder::new()
        .segment_size_bytes(256 * 1024)
        .total_buckets(plan.buckets)
        .bucket_ids_from_range(0..plan.buckets)
        .writer_threads(1)
        .reader_threads(1)
        .sync_interval(Duration::ZERO)
        .open(&dir)
        .expect("open database");
    let assigned: HashSet<u16> = HashSet::from([plan.partition]);
    let mut early_manager = None;
    if plan.manager_first {
        let mut m = BucketConfirmationManager::new(dir.clone(), plan.buckets, plan.rf, assigned.clone());
        if let Err(e) = m.initialize(&db).await {
            violation(&mut sigs, "initialize-fails", "BucketConfirmationManager::initialize", "fresh", e.to_string());
        }
        early_manager = Some(m);
    }
    // --- store the transactions with count 0, as a replica does --------------------------------
    let pk = make_id(plan.partition.wrapping_mul(3), 0x1234_5678_9abc_def0_1122_3344_5566_7788u128 ^ plan.seed as u128);
    let hash = uuid_to_partition_hash(pk);
    let mut rng = Rng::new(plan.seed);
    struct Stored {
        id: Uuid,
        offsets: SmallVec<[u64; 4]>,
        versions: Vec<u64>,
    }
    let mut stored: Vec<Stored> = Vec::new();
    for t in &plan.txns {
        let events: SmallVec<[NewEvent; 4]> = (0..t.events)
            .map(|i| NewEvent {
                event_id: make_id(hash, ((rng.next_u64() as u128) << 64) | rng.next_u64() as u128),
                stream_id: StreamId::new(format!("s{}", i % 2)).unwrap(),
                stream_version: ExpectedVersion::Any,
                event_name: "E".into(),
                timestamp: 1_700_000_000_000_000_000,
                metadata: vec![],
                payload: vec![7u8; 20 + i],
            })
            .collect();
        let id = set_uuid_flag(Uuid::from_u128(((rng.next_u64() as u128) << 64) | rng.next_u64() as u128), t.events == 1);
        let txn = Transaction::new(pk, plan.partition, events).unwrap().with_transaction_id(id).with_confirmation_count(0);
        let res = db.append_events(txn).await.expect("append");
        let mut offsets = res.offsets.clone();
        if t.events > 1 {
            // the commit record follows the last event
            let committed = db.read_transaction(plan.partition, db_first_id(&db, plan.partition, res.first_partition_sequence).await).await.ok().flatten();
            if let Some(sierradb::bucket::segment::CommittedEvents::Transaction { commit, .. }) = committed {
                offsets.push(commit.offset);
            }
        }
        let versions: Vec<u64> = (res.first_partition_sequence..=res.last_partition_sequence).map(|s| s + 1).collect();
        stored.push(Stored { id, offsets, versions });
    }
    let total_versions: u64 = stored.iter().map(|s| s.versions.len() as u64).sum();
    // --- manager ---------------------------------------------------------------------------------
    let mut manager = match early_manager {
        Some(m) => m,
        None => {
            let mut m = BucketConfirmationManager::new(dir.clone(), plan.buckets, plan.rf, assigned.clone());
            if let Err(e) = m.initialize(&db).await {
                violation(&mut sigs, "initialize-fails", "BucketConfirmationManager::initialize", "fresh", e.to_string());
            }
            m
        }
    };
    let bucket = plan.partition % plan.buckets;
    let conf_dir = dir.join("buckets").join(format!("{bucket:05}")).join("confirmation");
    // snapshots taken by the persist hook
    let snapshots: Rc<RefCell<Vec<Snapshot>>> = Rc::new(RefCell::new(Vec::new()));
    let observed: Rc<RefCell<u64>> = Rc::new(RefCell::new(0));
    let snap_no: Rc<RefCell<u64>> = Rc::new(RefCell::new(0));
    if plan.crash_checks {
        let snapshots = snapshots.clone();
        let observed = observed.clone();
        let snap_no = snap_no.clone();
        let conf_dir = conf_dir.clone();
        let base = scratch.join("snaps");
        crate::sim::set_hook(Some(Box::new(move |site, step, _| {
            if site != "confirm:persist" {
                return;
            }
            let mut n = snap_no.borrow_mut();
            *n += 1;
            if snapshots.borrow().len() >= 60 {
                return;
            }
            let d = base.join(format!("{}", *n));
            copy_dir(&conf_dir, &d);
            snapshots.borrow_mut().push(Snapshot { dir: d, step, observed_watermark: *observed.borrow() });
        })));
    }
    // --- deliveries -------------------------------------------------------------------------------
    let q = quorum(plan.rf);
    let mut max_reported: BTreeMap<u64, u8> = BTreeMap::new();
    let mut last_watermark = 0u64;
    let mut stale_after_higher = 0u64;
    let true_prefix = |max_reported: &BTreeMap<u64, u8>| -> u64 {
        let mut w = 0;
        while max_reported.get(&(w + 1)).map(|c| *c >= q).unwrap_or(false) {
            w += 1;
        }
        w
    };
    // A third of the runs restart the manager in the middle of the deliveries: what was reported before
    // the restart is on disk (counts in the event records) and is not reported again, the remaining
    // deliveries go to the re-initialised manager, and the completeness check below applies to it.
    let mid_restart: Option<(usize, bool)> = if plan.ops.len() >= 2 && plan.seed % 3 == 0 { Some((((plan.seed / 3) % plan.ops.len() as u64) as usize, (plan.seed / 7) % 2 == 0)) } else { None };
    let mut mid_restarts = 0u64;
    // highest count written into the event records so far (a transaction's count is written for all its versions)
    let mut on_disk: BTreeMap<u64, u8> = BTreeMap::new();
    for (di, d) in plan.ops.iter().enumerate() {
        let Some(s) = stored.get(d.txn) else { continue };
        if plan.step_ms > 0 {
            sim.advance(plan.step_ms * 1_000_000);
        }
        if let Some((at, clean)) = mid_restart {
            if at == di {
                if clean {
                    let _ = manager.persist_bucket_state(bucket).await;
                }
                drop(manager);
                // re-initialisation reads the counts in the event records: they count as reported
                for (v, c) in &on_disk {
                    let e = max_reported.entry(*v).or_insert(0);
                    *e = (*e).max(*c);
                }
                manager = BucketConfirmationManager::new(dir.clone(), plan.buckets, plan.rf, assigned.clone());
                mid_restarts += 1;
                evals += 1;
                let label = if clean { "mid-run-clean" } else { "mid-run-crash" };
                match manager.initialize(&db).await {
                    Ok(()) => {
                        let w = manager.get_watermark(plan.partition).map(|w| w.get()).unwrap_or(0);
                        chain.push_u64(w);
                        if w < last_watermark {
                            violation(&mut sigs, "watermark-lower-after-restart", "initialize", label, format!("watermark {w} after a restart before delivery {di}, it was {last_watermark} before"));
                        }
                        let bound = true_prefix(&max_reported);
                        if w > bound {
                            violation(&mut sigs, "watermark-exceeds-confirmed-prefix", "initialize", label, format!("watermark {w} after a restart before delivery {di} but the quorum-confirmed prefix is {bound}"));
                        }
                        last_watermark = last_watermark.max(w);
                        *observed.borrow_mut() = last_watermark;
                    }
                    Err(e) => violation(&mut sigs, "initialize-fails", "initialize", label, e.to_string()),
                }
            }
        }
        // the on-disk count is written before the update is reported (ConfirmTransaction's order)
        {
            if let Err(e) = db.set_confirmations(plan.partition, s.offsets.clone(), s.id, d.count).await {
                violation(&mut sigs, "harness", "set_confirmations", "error", e.to_string());
            }
        }
        for v in &s.versions {
            let e = on_disk.entry(*v).or_insert(0);
            *e = (*e).max(d.count);
        }
        let versions: Vec<u64> = match d.only_version {
            Some(i) => s.versions.get(i).copied().into_iter().collect(),
            None => s.versions.clone(),
        };
        for v in versions {
            let prev = max_reported.get(&v).copied().unwrap_or(0);
            if d.count < prev && v > last_watermark {
                stale_after_higher += 1;
            }
            let e = max_reported.entry(v).or_insert(0);
            *e = (*e).max(d.count);
            evals += 1;
            match manager.update_confirmation(plan.partition, v, d.count).await {
                Ok(_) => {}
                Err(e) => violation(&mut sigs, "update-fails", "update_confirmation", "error", e.to_string()),
            }
            let w = manager.get_watermark(plan.partition).map(|w| w.get()).unwrap_or(0);
            chain.push_u64(w);
            if w < last_watermark {
                violation(&mut sigs, "watermark-decreased", "update_confirmation", "live", format!("delivery {di} (version {v}, count {}): watermark {w} after {last_watermark}", d.count));
            }
            let bound = true_prefix(&max_reported);
            if w > bound {
                violation(&mut sigs, "watermark-exceeds-confirmed-prefix", "update_confirmation", "live", format!("delivery {di} (version {v}, count {}): watermark {w} but only the first {bound} versions have a quorum count reported (quorum {q})", d.count));
            }
            last_watermark = last_watermark.max(w);
            *observed.borrow_mut() = last_watermark;
        }
    }
    crate::sim::set_hook(None);
    // --- completeness: every final count has been delivered at least once -----------------------
    let expect = true_prefix(&max_reported);
    evals += 1;
    if last_watermark != expect {
        violation(&mut sigs, "watermark-stuck", "update_confirmation", if mid_restarts > 0 { "after-mid-run-restart" } else if stale_after_higher > 0 { "stale-lower-count-after-higher" } else { "in-order-counts" }, format!("all confirmations reported: the longest quorum-confirmed prefix is {expect} of {total_versions} versions but the watermark is {last_watermark}"));
    }
    // --- restart: clean (force a persist first) and from every crash snapshot --------------------
    let mut crash_states = 0u64;
    if plan.crash_checks {
        let _ = manager.persist_bucket_state(bucket).await;
        let final_w = last_watermark;
        let mut states: Vec<(String, PathBuf, u64)> = Vec::new();
        states.push(("clean-after-persist".into(), conf_dir.clone(), final_w));
        let snaps = snapshots.borrow();
        for s in snaps.iter() {
            states.push((format!("persist-step-{}", s.step), s.dir.clone(), s.observed_watermark));
            if s.step == 1 {
                // temp file complete: every 32-byte prefix of it is a possible crash state of step 0..1
                let temp = s.dir.join("bucket_state.temp.dat");
                if let Ok(bytes) = std::fs::read(&temp) {
                    let mut k = 0;
                    while k < bytes.len() {
                        let d = s.dir.parent().unwrap().join(format!("{}-cut{}", s.dir.file_name().unwrap().to_string_lossy(), k));
                        copy_dir(&s.dir, &d);
                        let _ = std::fs::write(d.join("bucket_state.temp.dat"), &bytes[..k]);
                        states.push(("temp-partially-written".into(), d, s.observed_watermark));
                        k += 32;
                        if states.len() > 400 {
                            break;
                        }
                    }
                }
            }
        }
        drop(snaps);
        for (label, conf, before) in states {
            crash_states += 1;
            evals += 1;
            // a fresh data dir that only holds this confirmation state; events are read from the database
            let restart_dir = scratch.join(&format!("restart-{crash_states}"));
            let target = restart_dir.join("buckets").join(format!("{bucket:05}")).join("confirmation");
            copy_dir(&conf, &target);
            let mut m2 = BucketConfirmationManager::new(restart_dir.clone(), plan.buckets, plan.rf, assigned.clone());
            match m2.initialize(&db).await {
                Ok(()) => {
                    let w = m2.get_watermark(plan.partition).map(|w| w.get()).unwrap_or(0);
                    chain.push_u64(w);
                    if w < before {
                        violation(&mut sigs, "watermark-lower-after-restart", "initialize", &label, format!("watermark {w} after restart from state '{label}', it was {before} before the crash"));
                    }
                    if w > expect {
                        violation(&mut sigs, "watermark-exceeds-confirmed-prefix", "initialize", &label, format!("watermark {w} after restart but the quorum-confirmed prefix is {expect}"));
                    }
                }
                Err(e) => violation(&mut sigs, "initialize-fails", "initialize", &label, e.to_string()),
            }
            let _ = std::fs::remove_dir_all(&restart_dir);
        }
    }
    db.shutdown().await;
    let _ = db.reader_pool().install(|with_readers| with_readers(|readers| readers.clear()));
    drop(db);
    let mut out = RunOutcome::default();
    out.evaluations = evals.max(1);
    out.steps = plan.ops.len() as u64;
    out.sim_nanos = sim.mono.load(std::sync::atomic::Ordering::SeqCst);
    out.faults.insert("stale_lower_count_after_higher".into(), stale_after_higher);
    out.faults.insert("crash_states_restarted".into(), crash_states);
    out.faults.insert("restart_in_the_middle_of_deliveries".into(), mid_restarts);
    out.probes.insert("persist_hook_snapshots".into(), *snap_no.borrow());
    let between_renames = snapshots.borrow().iter().filter(|s| s.step == 3).count() as u64;
    out.probes.insert("snapshots_between_the_two_renames".into(), between_renames);
    let mut sched = Chain::new();
    for d in &plan.ops {
        sched.push_u64(d.txn as u64 * 16 + d.count as u64);
    }
    out.schedule_hash = sched.0;
    out.state_hash = chain.0;
    if stale_after_higher > 0 && between_renames > 0 {
        out.nontrivial = Some(sched.0);
    }
    for (sig, detail) in &sigs {
        chain.push_str(sig);
        out.violations.push(Violation { signature: sig.clone(), detail: detail.clone() });
    }
    out.event_hash = chain.0;
    out.sample = Some(json!({"rf": plan.rf, "quorum": q, "txns": plan.txns, "deliveries": plan.ops.iter().take(16).collect::<Vec<_>>(), "final_watermark": last_watermark, "confirmed_prefix": expect, "crash_states": crash_states}));
    out
}

async fn db_first_id(db: &Database, pid: u16, first_seq: u64) -> Uuid {
    let mut it = db.read_partition(pid, first_seq, sierradb::IterDirection::Forward).await.expect("read_partition");
    let b = it.next_batch(1).await.expect("batch").expect("some");
    b.into_iter().next().unwrap().into_iter().next().unwrap().event_id
}

#[allow(dead_code)]
fn _unused(_: &Path) {}
