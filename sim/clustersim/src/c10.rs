//! C10 — at most one transaction is confirmed per partition sequence; C11 — acknowledged
//! replicated writes persist on a quorum. Both are decided on the same runs: N real ClusterActors
//! (node.rs) under a simulated network with loss, delay, stragglers, duplication, silent link
//! cuts, isolated nodes, crashes and restarts (disks survive), and membership that the nodes learn
//! through their own heartbeat/ownership gossip, so views can diverge.

use std::collections::{BTreeMap, BTreeSet};
use std::sync::atomic::Ordering;
use std::sync::{Arc, Mutex};

use serde::{Deserialize, Serialize};
use serde_json::{Value, json};
use sierradb::IterDirection;
use sierradb::StreamId;
use sierradb::database::{Database, ExpectedVersion, NewEvent, Transaction};
use sierradb::id::{set_uuid_flag, uuid_to_partition_hash};
use sierradb::writer_thread_pool::AppendResult;
use sierradb_cluster::write::execute::ExecuteTransaction;
use simcore::runner::Tier;
use simcore::{Chain, Rng, RunOutcome, Violation};
use smallvec::SmallVec;
use uuid::Uuid;

use crate::node::{Cluster, ClusterCfg, NetCfg};
use crate::util::make_id;
use crate::{driver, sim};

#[derive(Clone, Debug, Serialize, Deserialize, PartialEq)]
#[serde(tag = "op")]
pub enum Op {
    /// a client sends a transaction of `events` events for partition key `key` to node `node`
    Write { node: usize, key: usize, events: usize },
    Advance { ms: u64 },
    Cut { a: usize, b: usize, on: bool },
    Isolate { a: usize, on: bool },
    Crash { a: usize },
    Restart { a: usize },
}

#[derive(Clone, Debug, Serialize, Deserialize)]
pub struct C10Plan {
    pub n: usize,
    pub rf: u8,
    pub buckets: u16,
    pub partitions: u16,
    pub keys: usize,
    pub hb_interval_ms: u64,
    pub hb_timeout_ms: u64,
    pub loss_pct: u64,
    pub dup_pct: u64,
    pub max_delay_ms: u64,
    pub straggler_pct: u64,
    pub straggler_ms: u64,
    pub ops: Vec<Op>,
    pub seed: u64,
}

pub fn plan(tier: Tier, seed: u64) -> Value {
    let mut rng = Rng::new(seed);
    let n = *rng.pick(&[2usize, 3, 3, 3, 4, 5]);
    let rf = (*rng.pick(&[1u8, 2, 3, 3, 3, 5])).min(n as u8);
    let buckets = *rng.pick(&[1u16, 2, 4]);
    let partitions = *rng.pick(&[1u16, 2, 4, 8]);
    let keys = 1 + rng.usize_below(3);
    let hb_interval_ms = *rng.pick(&[500u64, 1000]);
    let hb_timeout_ms = hb_interval_ms * (2 + rng.below(3));
    let calm = rng.chance(1, 4);
    let loss_pct = if calm { 0 } else { *rng.pick(&[0u64, 3, 10, 25]) };
    let dup_pct = if calm { 0 } else { *rng.pick(&[0u64, 0, 5, 20]) };
    let max_delay_ms = *rng.pick(&[0u64, 5, 50, 400]);
    let straggler_pct = if calm { 0 } else { *rng.pick(&[0u64, 2, 10]) };
    let straggler_ms = *rng.pick(&[2_000u64, 9_000, 15_000]);
    let nops = 4 + rng.usize_below(match tier { Tier::Quick => 14, Tier::Thorough => 30 });
    let mut ops = Vec::new();
    let mut down: BTreeSet<usize> = BTreeSet::new();
    // one plan in four starts with a split view: two nodes lose sight of each other (both still
    // reach the rest), time passes beyond the heartbeat timeout, and both get writes for the same
    // keys at the same moment, so two coordinators may be active for one partition
    if n >= 3 && !calm && rng.chance(1, 3) {
        let a = rng.usize_below(n);
        let b = (a + 1 + rng.usize_below(n - 1)) % n;
        ops.push(Op::Cut { a, b, on: true });
        ops.push(Op::Advance { ms: hb_timeout_ms + 1500 });
        for _ in 0..(2 + rng.usize_below(4)) {
            let key = rng.usize_below(keys);
            let events = if rng.chance(2, 3) { 1 } else { 2 + rng.usize_below(2) };
            ops.push(Op::Write { node: a, key, events });
            ops.push(Op::Write { node: b, key, events: 1 });
            if rng.chance(1, 2) {
                ops.push(Op::Advance { ms: *rng.pick(&[1u64, 20, 200]) });
            }
        }
    }
    for _ in 0..nops {
        let a = rng.usize_below(n);
        let b = (a + 1 + rng.usize_below(n - 1)) % n;
        let op = match rng.weighted(&[10, 5, if calm { 0 } else { 2 }, if calm { 0 } else { 1 }, if calm { 0 } else { 1 }, 2]) {
            0 => Op::Write { node: a, key: rng.usize_below(keys), events: if rng.chance(2, 3) { 1 } else { 2 + rng.usize_below(3) } },
            1 => Op::Advance { ms: *rng.pick(&[1u64, 20, 200, 1500, 4000, 11_000]) },
            2 => Op::Cut { a, b, on: rng.chance(2, 3) },
            3 => Op::Isolate { a, on: rng.chance(2, 3) },
            4 if !down.contains(&a) && down.len() + 1 < n => {
                down.insert(a);
                Op::Crash { a }
            }
            5 if !down.is_empty() => {
                let v: Vec<usize> = down.iter().copied().collect();
                let x = *rng.pick(&v);
                down.remove(&x);
                Op::Restart { a: x }
            }
            _ => Op::Advance { ms: *rng.pick(&[1u64, 50, 500]) },
        };
        ops.push(op);
    }
    serde_json::to_value(C10Plan { n, rf, buckets, partitions, keys, hb_interval_ms, hb_timeout_ms, loss_pct, dup_pct, max_delay_ms, straggler_pct, straggler_ms, ops, seed: rng.next_u64() >> 8 }).unwrap()
}

#[derive(Clone, Debug)]
struct ClientWrite {
    txn_id: Uuid,
    partition: u16,
    event_ids: Vec<Uuid>,
    node: usize,
    result: Option<Result<AppendResult, String>>,
    /// global order stamp of the moment the client saw the acknowledgement
    ack_order: Option<u64>,
}

/// one event as stored on a node
#[derive(Clone, Debug, PartialEq)]
struct Stored {
    seq: u64,
    txn: Uuid,
    event: Uuid,
    count: u8,
}

async fn read_log_async(db: &Database, partition: u16) -> Result<Vec<Stored>, String> {
    let mut out = Vec::new();
    let mut iter = db.read_partition(partition, 0, IterDirection::Forward).await.map_err(|e| e.to_string())?;
    while let Some(commits) = iter.next_batch(64).await.map_err(|e| e.to_string())? {
        for commit in commits {
            for ev in commit {
                out.push(Stored { seq: ev.partition_sequence, txn: ev.transaction_id, event: ev.event_id, count: ev.confirmation_count });
            }
        }
    }
    Ok(out)
}

/// Reads a node's partition log straight from its store (no tokio needed: the store's futures are
/// completed by its own threads).
fn read_log(db: &Database, partition: u16) -> Result<Vec<Stored>, String> {
    futures::executor::block_on(read_log_async(db, partition))
}

pub fn execute(prop: &str, plan_v: &Value) -> RunOutcome {
    let plan: C10Plan = match serde_json::from_value(plan_v.clone()) {
        Ok(p) => p,
        Err(e) => {
            let mut out = RunOutcome::default();
            out.violations.push(Violation { signature: format!("{prop}/harness/bad-plan/parse"), detail: e.to_string() });
            return out;
        }
    };
    let prop = prop.to_string();
    let res = crate::util::catch(|| run(prop.clone(), plan));
    match res {
        Ok(out) => out,
        Err(panic) => {
            let mut out = RunOutcome::default();
            out.evaluations = 1;
            kameo::remote::sim::install(None);
            out.violations.push(Violation { signature: format!("{prop}/harness/panic/run"), detail: panic });
            out
        }
    }
}

struct Checker {
    prop: String,
    quorum: usize,
    partitions: u16,
    out: RunOutcome,
    /// first transaction seen with a quorum count at (partition, seq)
    confirmed: BTreeMap<(u16, u64), Uuid>,
    /// per node: what was seen confirmed at (partition, seq) earlier (never replaced)
    acked_seen: BTreeMap<Uuid, (u16, u64, u64)>,
}

impl Checker {
    fn violation(&mut self, prop: &str, clause: &str, shape: &str, detail: String) {
        if prop != self.prop {
            *self.out.probes.entry(format!("other_property_violation:{prop}/{clause}")).or_insert(0) += 1;
            return;
        }
        let sig = format!("{prop}/{clause}/cluster/{shape}");
        if !self.out.violations.iter().any(|v| v.signature == sig) {
            self.out.violations.push(Violation { signature: sig, detail });
        }
    }

    /// logs: per node (whether up or not) the stored events of every partition
    fn check(&mut self, when: &str, logs: &BTreeMap<usize, BTreeMap<u16, Vec<Stored>>>, writes: &[ClientWrite], coordinators: &BTreeMap<Uuid, BTreeSet<usize>>) {
        self.out.evaluations += 1;
        // C10: one confirmed transaction per sequence, across nodes and across time
        for (node, parts) in logs {
            for (p, events) in parts {
                let mut expect_seq = 0u64;
                for ev in events {
                    if ev.seq != expect_seq {
                        self.violation("C10", "log-not-gapless", "replica-log", format!("{when}: node {node} partition {p}: sequence {} follows {}", ev.seq, expect_seq as i64 - 1));
                        break;
                    }
                    expect_seq += 1;
                    if (ev.count as usize) >= self.quorum {
                        match self.confirmed.get(&(*p, ev.seq)) {
                            Some(t) if *t != ev.txn => {
                                let first = *t;
                                self.violation("C10", "two-confirmed-transactions-at-one-sequence", "quorum-count", format!("{when}: partition {p} sequence {}: transaction {first} and transaction {} (node {node}) both carry a quorum confirmation count", ev.seq, ev.txn));
                            }
                            Some(_) => {}
                            None => {
                                self.confirmed.insert((*p, ev.seq), ev.txn);
                            }
                        }
                    }
                }
            }
        }
        // C10: confirmed prefixes agree event for event
        let nodes: Vec<usize> = logs.keys().copied().collect();
        for p in 0..self.partitions {
            let prefix = |events: &Vec<Stored>, quorum: usize| -> usize { events.iter().take_while(|e| (e.count as usize) >= quorum).count() };
            for i in 0..nodes.len() {
                for j in i + 1..nodes.len() {
                    let (Some(a), Some(b)) = (logs[&nodes[i]].get(&p), logs[&nodes[j]].get(&p)) else { continue };
                    let (pa, pb) = (prefix(a, self.quorum), prefix(b, self.quorum));
                    let common = pa.min(pb);
                    for k in 0..common {
                        if a[k].event != b[k].event || a[k].txn != b[k].txn {
                            self.violation("C10", "confirmed-prefixes-disagree", "replica-logs", format!("{when}: partition {p} sequence {k}: nodes {} and {} both hold it inside their confirmed prefix with different events", nodes[i], nodes[j]));
                            break;
                        }
                    }
                    if common > 0 {
                        *self.out.probes.entry("confirmed_prefix_compared".into()).or_insert(0) += 1;
                    }
                }
            }
        }
        let stored = sim::confirmations_stored();
        // C11: every acknowledged write sits at its sequence on a quorum of nodes, with a quorum
        // count on its coordinator, now and at every later check
        for w in writes {
            let Some(Ok(append)) = &w.result else { continue };
            let (first, last) = (append.first_partition_sequence, append.last_partition_sequence);
            if (last - first + 1) as usize != w.event_ids.len() {
                self.violation("C11", "ack-sequence-range-wrong", "reply", format!("{when}: transaction {} of {} events acknowledged with sequences {first}..={last}", w.txn_id, w.event_ids.len()));
                continue;
            }
            let mut holders = 0usize;
            let mut coordinator_ok = None;
            let mut any_quorum_count = false;
            let mut where_held: Vec<String> = Vec::new();
            for (node, parts) in logs {
                let Some(events) = parts.get(&w.partition) else { continue };
                let whole = w.event_ids.iter().enumerate().all(|(i, id)| events.get(first as usize + i).map(|e| e.event == *id && e.txn == w.txn_id).unwrap_or(false));
                if whole {
                    holders += 1;
                    where_held.push(format!("node {node}: counts {:?}", (first..=last).map(|s| events[s as usize].count).collect::<Vec<_>>()));
                    let counted = (first..=last).all(|s| (events[s as usize].count as usize) >= self.quorum);
                    any_quorum_count |= counted;
                    // the node that coordinated it (one of them, if a duplicated or re-forwarded client
                    // request was executed by several nodes: the one that reached the quorum)
                    if coordinators.get(&w.txn_id).map(|c| c.contains(node)).unwrap_or(false) {
                        coordinator_ok = Some(coordinator_ok.unwrap_or(false) || counted);
                    }
                }
            }
            self.acked_seen.insert(w.txn_id, (w.partition, first, last));
            // the quorum count is stored (on the coordinator: replicas only learn it afterwards)
            // before the client sees the acknowledgement
            if let Some(ack) = w.ack_order {
                let hi = (w.txn_id.as_u128() >> 64) as u64;
                let lo = (w.txn_id.as_u128() as u64) & !0xff;
                let stored_before = stored.iter().any(|(o, h, l, c)| *h == hi && *l == lo && (*c as usize) >= self.quorum && *o < ack);
                if !stored_before {
                    self.violation("C11", "acknowledged-before-quorum-count-stored", "coordinator-log", format!("{when}: transaction {} was acknowledged to its client before any node had stored a quorum confirmation count for it", w.txn_id));
                }
            }
            if holders < self.quorum {
                self.violation("C11", "acknowledged-write-not-on-quorum", "replica-logs", format!("{when}: transaction {} was acknowledged at partition {} sequences {first}..={last} but only {holders} node(s) store it there (quorum {})", w.txn_id, w.partition, self.quorum));
            } else if coordinator_ok == Some(false) || !any_quorum_count {
                self.violation("C11", "acknowledged-write-without-quorum-count", "coordinator-log", format!("{when}: transaction {} (client node {}, acknowledged at sequences {first}..={last}) carries no quorum confirmation count on its coordinator {:?}; held by [{}]", w.txn_id, w.node, coordinators.get(&w.txn_id), where_held.join("; ")));
            }
        }
    }
}

fn snapshot(cluster: &Cluster, partitions: u16, offline: &mut BTreeMap<usize, BTreeMap<u16, Vec<Stored>>>) -> Result<BTreeMap<usize, BTreeMap<u16, Vec<Stored>>>, String> {
    let mut logs = BTreeMap::new();
    for node in &cluster.nodes {
        if let Some(db) = &node.db {
            let mut parts = BTreeMap::new();
            for p in 0..partitions {
                parts.insert(p, read_log(db, p)?);
            }
            offline.insert(node.index, parts.clone());
            logs.insert(node.index, parts);
        } else if let Some(parts) = offline.get(&node.index) {
            // a crashed node's disk: what it held when it was last read (reopened on restart)
            logs.insert(node.index, parts.clone());
        }
    }
    Ok(logs)
}

fn run(prop: String, plan: C10Plan) -> RunOutcome {
    let simh = sim::sim();
    simh.reset_clock();
    driver::reset_counters();
    futures::executor::block_on(kameo::remote::sim::reset_run(1000));
    let cfg = ClusterCfg { n: plan.n, buckets: plan.buckets, partitions: plan.partitions, rf: plan.rf, hb_interval_ms: plan.hb_interval_ms, hb_timeout_ms: plan.hb_timeout_ms, buffer_size: 64, buffer_timeout_ms: 8_000, catchup_timeout_ms: 1_000 };
    let net = NetCfg { seed: plan.seed, loss_pct: plan.loss_pct, dup_pct: plan.dup_pct, max_delay_ms: plan.max_delay_ms, straggler_pct: plan.straggler_pct, straggler_ms: plan.straggler_ms };
    let mut cluster = Cluster::new(cfg, net, "c10");
    let quorum = plan.rf as usize / 2 + 1;
    let mut chk = Checker { prop: prop.clone(), quorum, partitions: plan.partitions, out: RunOutcome::default(), confirmed: BTreeMap::new(), acked_seen: BTreeMap::new() };
    for i in 0..plan.n {
        cluster.start_node(i);
    }
    cluster.lossy = false;
    cluster.connect_all();
    // membership forms over the real gossip
    cluster.run_until(plan.hb_interval_ms + 100);
    cluster.lossy = true;

    let keys: Vec<Uuid> = (0..plan.keys).map(|k| Uuid::from_u128(0x1000_0000_0000_4000_8000_0000_0000_0000u128 | ((plan.seed as u128) << 8) | k as u128)).collect();
    let writes: Arc<Mutex<Vec<ClientWrite>>> = Arc::new(Mutex::new(Vec::new()));
    let mut offline: BTreeMap<usize, BTreeMap<u16, Vec<Stored>>> = BTreeMap::new();
    let mut sched = Chain::new();
    let mut wrng = Rng::new(plan.seed ^ 0xabcdef);
    let done = cluster.done_counter();
    for (i, op) in plan.ops.iter().enumerate() {
        sched.push_str(&format!("{op:?}"));
        if cluster.trace {
            let views: Vec<Vec<usize>> = (0..plan.n).map(|i| cluster.active_view(i)).collect();
            eprintln!("t={} op {op:?} views={views:?}", cluster.now_ms);
        }
        match op {
            Op::Write { node, key, events } if *node < plan.n && *key < keys.len() => {
                let pk = keys[*key];
                let hash = uuid_to_partition_hash(pk);
                let partition = hash % plan.partitions;
                let evs: SmallVec<[NewEvent; 4]> = (0..*events)
                    .map(|e| NewEvent {
                        event_id: make_id(hash, ((wrng.next_u64() as u128) << 64) | wrng.next_u64() as u128),
                        stream_id: StreamId::new(format!("s{key}-{}", i * 8 + e)).unwrap(),
                        stream_version: ExpectedVersion::Any,
                        event_name: "W".into(),
                        timestamp: 1_700_000_000_000_000_000,
                        metadata: vec![],
                        payload: vec![e as u8; 8],
                    })
                    .collect();
                let event_ids: Vec<Uuid> = evs.iter().map(|e| e.event_id).collect();
                let txn_id = set_uuid_flag(Uuid::from_u128(((wrng.next_u64() as u128) << 64) | wrng.next_u64() as u128), *events == 1);
                let txn = Transaction::new(pk, partition, evs).unwrap().with_transaction_id(txn_id);
                let slot = {
                    let mut w = writes.lock().unwrap();
                    w.push(ClientWrite { txn_id, partition, event_ids, node: *node, result: None, ack_order: None });
                    w.len() - 1
                };
                if let Some(actor) = cluster.nodes[*node].actor.clone() {
                    let writes = writes.clone();
                    let done = done.clone();
                    cluster.spawn_on(*node, async move {
                        let res = actor.ask(ExecuteTransaction::new(txn)).await;
                        let order = sim::next_order();
                        let mut w = writes.lock().unwrap();
                        w[slot].ack_order = Some(order);
                        w[slot].result = Some(res.map_err(|e| e.to_string()));
                        drop(w);
                        done.fetch_add(1, Ordering::SeqCst);
                    });
                } else {
                    writes.lock().unwrap()[slot].result = Some(Err("node down".into()));
                }
                cluster.settle();
            }
            Op::Advance { ms } => {
                let t = cluster.now_ms + (*ms).min(20_000);
                cluster.run_until(t);
            }
            Op::Cut { a, b, on } if *a < plan.n && *b < plan.n && a != b => cluster.cut(*a, *b, *on),
            Op::Isolate { a, on } if *a < plan.n => cluster.isolate(*a, *on),
            Op::Crash { a } if *a < plan.n && cluster.is_up(*a) => {
                // what the disk holds at the crash is read after the restart (reopen = recovery)
                cluster.crash_node(*a);
            }
            Op::Restart { a } if *a < plan.n && !cluster.is_up(*a) => {
                cluster.start_node(*a);
                for b in 0..plan.n {
                    if b != *a && cluster.is_up(b) {
                        cluster.connect(*a, b);
                    }
                }
            }
            _ => {}
        }
        match snapshot(&cluster, plan.partitions, &mut offline) {
            Ok(logs) => {
                let w = writes.lock().unwrap().clone();
                chk.check("after-op", &logs, &w, &cluster.coordinators);
            }
            Err(e) => chk.violation(&prop, "read-error", "replica-log", e),
        }
        if !chk.out.violations.is_empty() {
            break;
        }
    }
    // faults stop; every timeout in flight resolves (write timeouts are 10 s, stragglers up to 15 s)
    if chk.out.violations.is_empty() {
        cluster.lossy = false;
        for a in 0..plan.n {
            cluster.isolate(a, false);
            for b in a + 1..plan.n {
                cluster.cut(a, b, false);
            }
        }
        for a in 0..plan.n {
            if !cluster.is_up(a) {
                cluster.start_node(a);
            }
        }
        cluster.connect_all();
        let t = cluster.now_ms + 32_000;
        cluster.run_until(t);
        match snapshot(&cluster, plan.partitions, &mut offline) {
            Ok(logs) => {
                let w = writes.lock().unwrap().clone();
                chk.check("final", &logs, &w, &cluster.coordinators);
                let unanswered = w.iter().filter(|x| x.result.is_none()).count();
                if unanswered > 0 {
                    *chk.out.probes.entry("client_write_unanswered_at_end".into()).or_insert(0) += unanswered as u64;
                }
                let acked = w.iter().filter(|x| matches!(x.result, Some(Ok(_)))).count();
                *chk.out.probes.entry("client_writes_acknowledged".into()).or_insert(0) += acked as u64;
                *chk.out.probes.entry("client_writes_failed".into()).or_insert(0) += (w.len() - acked - unanswered) as u64;
                let mut st = Chain::new();
                for (n, parts) in &logs {
                    st.push_u64(*n as u64);
                    for (p, evs) in parts {
                        st.push_u64(*p as u64);
                        for e in evs {
                            st.push(e.event.as_bytes());
                            st.push_u64(e.count as u64);
                        }
                    }
                }
                chk.out.state_hash = st.0;
            }
            Err(e) => chk.violation(&prop, "read-error", "replica-log", e),
        }
    }
    let w = writes.lock().unwrap().clone();
    let multi = w.iter().any(|x| x.event_ids.len() > 1);
    let faults: u64 = cluster.faults.values().sum();
    if plan.n >= 3 && plan.rf >= 2 && faults > 0 && w.iter().filter(|x| matches!(x.result, Some(Ok(_)))).count() >= 2 {
        let mut c = Chain::new();
        c.push_u64(sched.0);
        c.push_u64(multi as u64);
        chk.out.nontrivial = Some(c.0);
    }
    chk.out.faults = cluster.faults.clone();
    for (k, v) in &cluster.probes {
        *chk.out.probes.entry(k.clone()).or_insert(0) += v;
    }
    chk.out.steps = cluster.steps;
    chk.out.sim_nanos = cluster.now_ms * 1_000_000;
    chk.out.schedule_hash = sched.0;
    let mut eh = Chain::new();
    eh.push_u64(chk.out.state_hash);
    for x in &w {
        eh.push(x.txn_id.as_bytes());
        eh.push_u64(match &x.result { Some(Ok(a)) => a.first_partition_sequence + 1, Some(Err(_)) => 0, None => u64::MAX });
    }
    chk.out.event_hash = eh.0;
    chk.out.evaluations = chk.out.evaluations.max(1);
    chk.out.sample = Some(json!({"n": plan.n, "rf": plan.rf, "ops": plan.ops.len(), "loss_pct": plan.loss_pct, "dup_pct": plan.dup_pct, "max_delay_ms": plan.max_delay_ms, "writes": w.len()}));
    cluster.shutdown();
    chk.out
}
