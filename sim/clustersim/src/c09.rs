//! C09 — subscriptions deliver confirmed events in order, once, without gaps.
//! The multi-node engine (node.rs) with real client writes, real confirmation traffic under network
//! faults, and the simulator playing the subscriber: it sends the real `Subscribe` message to a
//! node's ClusterActor (partition, multi-partition, all-partitions, stream, multi-stream; any start
//! position; any window), drains the subscription's update channel after every step and
//! acknowledges with a PRNG lag through the watch channel.

use std::collections::{BTreeMap, BTreeSet, HashMap, HashSet};
use std::sync::atomic::Ordering;
use std::sync::{Arc, Mutex};

use serde::{Deserialize, Serialize};
use serde_json::{Value, json};
use sierradb::IterDirection;
use sierradb::StreamId;
use sierradb::database::{Database, ExpectedVersion, NewEvent, Transaction};
use sierradb::id::{set_uuid_flag, uuid_to_partition_hash};
use sierradb_cluster::subscription::{FromSequences, FromVersions, Subscribe, SubscriptionEvent, SubscriptionMatcher};
use sierradb_cluster::write::execute::ExecuteTransaction;
use simcore::runner::Tier;
use simcore::{Chain, Rng, RunOutcome, Violation};
use smallvec::SmallVec;
use tokio::sync::{mpsc, watch};
use uuid::Uuid;

use crate::node::{Cluster, ClusterCfg, NetCfg};
use crate::util::make_id;
use crate::{driver, sim};

#[derive(Clone, Debug, Serialize, Deserialize, PartialEq)]
pub enum SubKind {
    Partition,
    Partitions,
    AllPartitions,
    Stream,
    Streams,
}

#[derive(Clone, Debug, Serialize, Deserialize, PartialEq)]
#[serde(tag = "op")]
pub enum Op {
    Write { node: usize, key: usize, stream: usize, events: usize },
    /// `from`: None = from now on; Some(k) = from sequence / version k
    /// `race`: the history read is parked between its batches (hook K3) while `race` ms of cluster
    /// time pass (confirmations arrive, the watermark moves), then released
    Subscribe { node: usize, kind: SubKind, key: usize, stream: usize, from: Option<u64>, window: u64, #[serde(default)] race: u64 },
    /// acknowledge all but the last `lag` records received so far on subscription `sub`
    Ack { sub: usize, lag: u64 },
    Advance { ms: u64 },
    Cut { a: usize, b: usize, on: bool },
    Isolate { a: usize, on: bool },
}

#[derive(Clone, Debug, Serialize, Deserialize)]
pub struct C09Plan {
    pub n: usize,
    pub rf: u8,
    pub partitions: u16,
    pub keys: usize,
    pub streams: usize,
    pub loss_pct: u64,
    pub max_delay_ms: u64,
    pub straggler_pct: u64,
    pub straggler_ms: u64,
    /// a burst of single-event writes to one stream before the operations (history longer than a batch)
    pub preload: usize,
    pub ops: Vec<Op>,
    pub seed: u64,
}

pub fn plan(tier: Tier, seed: u64) -> Value {
    let mut rng = Rng::new(seed);
    let n = *rng.pick(&[1usize, 3, 3]);
    let rf = if n == 1 { 1 } else { 3 };
    let partitions = *rng.pick(&[1u16, 2, 4]);
    let keys = 1 + rng.usize_below(2);
    let streams = 1 + rng.usize_below(2);
    let calm = n == 1 || rng.chance(1, 3);
    let loss_pct = if calm { 0 } else { *rng.pick(&[0u64, 5, 15]) };
    let max_delay_ms = *rng.pick(&[0u64, 5, 50, 300]);
    let straggler_pct = if calm { 0 } else { *rng.pick(&[0u64, 5, 15]) };
    let straggler_ms = *rng.pick(&[1_000u64, 4_000, 9_000]);
    let preload = if rng.chance(1, 4) { 55 + rng.usize_below(60) } else { rng.usize_below(6) };
    let nops = 6 + rng.usize_below(match tier { Tier::Quick => 18, Tier::Thorough => 36 });
    let mut ops = Vec::new();
    let mut subs = 0usize;
    for _ in 0..nops {
        let a = rng.usize_below(n);
        let b = if n > 1 { (a + 1 + rng.usize_below(n - 1)) % n } else { a };
        let op = match rng.weighted(&[10, 4, 4, 5, if calm { 0 } else { 1 }, if calm { 0 } else { 1 }]) {
            0 => Op::Write { node: a, key: rng.usize_below(keys), stream: rng.usize_below(streams), events: if rng.chance(2, 3) { 1 } else { 2 + rng.usize_below(3) } },
            1 if subs < 4 => {
                subs += 1;
                let kind = match rng.below(6) {
                    0 | 1 => SubKind::Partition,
                    2 => SubKind::Partitions,
                    3 => SubKind::AllPartitions,
                    4 => SubKind::Stream,
                    _ => SubKind::Streams,
                };
                let from = match rng.below(4) {
                    0 => None,
                    1 => Some(0),
                    _ => Some(rng.below(8)),
                };
                Op::Subscribe { node: a, kind, key: rng.usize_below(keys), stream: rng.usize_below(streams), from, window: *rng.pick(&[1u64, 2, 5, 1000, 1000]), race: if rng.chance(1, 2) { *rng.pick(&[50u64, 1000, 5000, 10_000]) } else { 0 } }
            }
            2 if subs > 0 => Op::Ack { sub: rng.usize_below(subs), lag: rng.below(3) },
            4 if n > 1 => Op::Cut { a, b, on: rng.chance(2, 3) },
            5 if n > 1 => Op::Isolate { a, on: rng.chance(1, 2) },
            _ => Op::Advance { ms: *rng.pick(&[1u64, 20, 200, 1500, 5000]) },
        };
        ops.push(op);
    }
    serde_json::to_value(C09Plan { n, rf, partitions, keys, streams, loss_pct, max_delay_ms, straggler_pct, straggler_ms, preload, ops, seed: rng.next_u64() >> 8 }).unwrap()
}

#[derive(Clone, Debug)]
struct Rec {
    cursor: u64,
    partition: u16,
    seq: u64,
    stream: String,
    version: u64,
    event: Uuid,
}

struct Sub {
    node: usize,
    kind: SubKind,
    window: u64,
    /// partitions / streams it matches
    partitions: BTreeSet<u16>,
    streams: BTreeSet<String>,
    /// start per partition / stream; None = "from now" (resolved to the node's watermark / version at subscribe time)
    from: Option<u64>,
    start_seq: BTreeMap<u16, u64>,
    start_ver: BTreeMap<String, u64>,
    /// completeness is demanded from here on (the start position, or what was confirmed when a
    /// "from now" subscription was made)
    complete_seq: BTreeMap<u16, u64>,
    complete_ver: BTreeMap<String, u64>,
    rx: mpsc::UnboundedReceiver<SubscriptionEvent>,
    ack_tx: watch::Sender<Option<u64>>,
    acked: Option<u64>,
    received: Vec<Rec>,
    closed: Option<String>,
}

#[derive(Clone, Debug)]
struct Stored {
    seq: u64,
    event: Uuid,
    count: u8,
    stream: String,
    version: u64,
}

fn read_log(db: &Database, partition: u16) -> Result<Vec<Stored>, String> {
    futures::executor::block_on(async {
        let mut out = Vec::new();
        let mut iter = db.read_partition(partition, 0, IterDirection::Forward).await.map_err(|e| e.to_string())?;
        while let Some(commits) = iter.next_batch(64).await.map_err(|e| e.to_string())? {
            for commit in commits {
                for ev in commit {
                    out.push(Stored { seq: ev.partition_sequence, event: ev.event_id, count: ev.confirmation_count, stream: ev.stream_id.to_string(), version: ev.stream_version });
                }
            }
        }
        Ok(out)
    })
}

fn confirmed_prefix(log: &[Stored], quorum: u8) -> usize {
    log.iter().take_while(|e| e.count >= quorum).count()
}

pub fn execute(plan_v: &Value) -> RunOutcome {
    let plan: C09Plan = match serde_json::from_value(plan_v.clone()) {
        Ok(p) => p,
        Err(e) => {
            let mut out = RunOutcome::default();
            out.violations.push(Violation { signature: "C09/harness/bad-plan/parse".into(), detail: e.to_string() });
            return out;
        }
    };
    match crate::util::catch(|| run(plan)) {
        Ok(out) => out,
        Err(panic) => {
            let mut out = RunOutcome::default();
            out.evaluations = 1;
            kameo::remote::sim::install(None);
            out.violations.push(Violation { signature: "C09/harness/panic/run".into(), detail: panic });
            out
        }
    }
}

struct Ctx {
    out: RunOutcome,
    quorum: u8,
}

impl Ctx {
    fn violation(&mut self, clause: &str, shape: &str, detail: String) {
        let sig = format!("C09/{clause}/Subscription/{shape}");
        if !self.out.violations.iter().any(|v| v.signature == sig) {
            self.out.violations.push(Violation { signature: sig, detail });
        }
    }

    /// drains the update channel of every subscription and checks order / gaps / duplicates / window
    fn drain(&mut self, subs: &mut [Sub], when: &str) {
        for (si, sub) in subs.iter_mut().enumerate() {
            loop {
                match sub.rx.try_recv() {
                    Ok(SubscriptionEvent::Record { cursor, record, .. }) => {
                        self.out.evaluations += 1;
                        let rec = Rec { cursor, partition: record.partition_id, seq: record.partition_sequence, stream: record.stream_id.to_string(), version: record.stream_version, event: record.event_id };
                        // cursor numbers the deliveries
                        if cursor != sub.received.len() as u64 {
                            self.violation("cursor-not-consecutive", "update-channel", format!("{when}: subscription {si} delivered cursor {cursor} as its delivery number {}", sub.received.len()));
                        }
                        let kind = format!("{:?}", sub.kind);
                        match sub.kind {
                            SubKind::Partition | SubKind::Partitions | SubKind::AllPartitions => {
                                if !sub.partitions.contains(&rec.partition) {
                                    self.violation("event-does-not-match", &kind, format!("{when}: subscription {si} received an event of partition {} it did not subscribe to", rec.partition));
                                }
                                let prev = sub.received.iter().rev().find(|r| r.partition == rec.partition).map(|r| r.seq);
                                let expected = match prev {
                                    Some(p) => Some(p + 1),
                                    None => sub.start_seq.get(&rec.partition).copied(),
                                };
                                if let Some(exp) = expected {
                                    if rec.seq < exp {
                                        self.violation("duplicate-or-backwards", &kind, format!("{when}: subscription {si} ({kind}, from {:?}) received partition {} sequence {} after sequence {:?} (expected {exp})", sub.from, rec.partition, rec.seq, prev));
                                    } else if rec.seq > exp {
                                        self.violation("gap", &kind, format!("{when}: subscription {si} ({kind}, from {:?}) received partition {} sequence {} but expected {exp}: events skipped", sub.from, rec.partition, rec.seq));
                                    }
                                }
                            }
                            SubKind::Stream | SubKind::Streams => {
                                if !sub.streams.contains(&rec.stream) {
                                    self.violation("event-does-not-match", &kind, format!("{when}: subscription {si} received an event of stream {} it did not subscribe to", rec.stream));
                                }
                                let prev = sub.received.iter().rev().find(|r| r.stream == rec.stream).map(|r| r.version);
                                let expected = match prev {
                                    Some(p) => Some(p + 1),
                                    None => sub.start_ver.get(&rec.stream).copied(),
                                };
                                if let Some(exp) = expected {
                                    if rec.version < exp {
                                        self.violation("duplicate-or-backwards", &kind, format!("{when}: subscription {si} ({kind}, from {:?}) received stream {} version {} after version {:?} (expected {exp})", sub.from, rec.stream, rec.version, prev));
                                    } else if rec.version > exp {
                                        self.violation("gap", &kind, format!("{when}: subscription {si} ({kind}, from {:?}) received stream {} version {} but expected {exp}: events skipped", sub.from, rec.stream, rec.version));
                                    }
                                }
                            }
                        }
                        sub.received.push(rec);
                        // window: deliveries not yet acknowledged
                        let outstanding = match sub.acked {
                            Some(a) => sub.received.len() as u64 - (a + 1).min(sub.received.len() as u64),
                            None => sub.received.len() as u64,
                        };
                        if outstanding > sub.window {
                            self.violation("window-exceeded", &kind, format!("{when}: subscription {si} has {outstanding} unacknowledged deliveries with a window of {}", sub.window));
                        }
                    }
                    Ok(SubscriptionEvent::Error { error, .. }) => {
                        sub.closed = Some(format!("error: {error}"));
                    }
                    Ok(SubscriptionEvent::Closed { .. }) => {
                        sub.closed = Some("closed".into());
                    }
                    Err(_) => break,
                }
            }
        }
    }
}

fn run(plan: C09Plan) -> RunOutcome {
    let simh = sim::sim();
    simh.reset_clock();
    driver::reset_counters();
    futures::executor::block_on(kameo::remote::sim::reset_run(1000));
    let cfg = ClusterCfg { n: plan.n, buckets: 2, partitions: plan.partitions, rf: plan.rf, hb_interval_ms: 1000, hb_timeout_ms: 4000, buffer_size: 64, buffer_timeout_ms: 8_000, catchup_timeout_ms: 1_000 };
    let net = NetCfg { seed: plan.seed, loss_pct: plan.loss_pct, dup_pct: 0, max_delay_ms: plan.max_delay_ms, straggler_pct: plan.straggler_pct, straggler_ms: plan.straggler_ms };
    let mut cluster = Cluster::new(cfg, net, "c09");
    let quorum = plan.rf / 2 + 1;
    let mut ctx = Ctx { out: RunOutcome::default(), quorum };
    for i in 0..plan.n {
        cluster.start_node(i);
    }
    cluster.lossy = false;
    cluster.connect_all();
    cluster.run_until(1100);
    cluster.lossy = true;

    let keys: Vec<Uuid> = (0..plan.keys).map(|k| Uuid::from_u128(0x3000_0000_0000_4000_8000_0000_0000_0000u128 | ((plan.seed as u128) << 8) | k as u128)).collect();
    let key_partition: Vec<u16> = keys.iter().map(|k| uuid_to_partition_hash(*k) % plan.partitions).collect();
    let stream_name = |key: usize, stream: usize| format!("c09-{key}-{stream}");
    let mut wrng = Rng::new(plan.seed ^ 0x0909);
    let done = cluster.done_counter();
    let acked_writes: Arc<Mutex<u64>> = Arc::new(Mutex::new(0));
    let mut write_no = 0usize;
    let mut do_write = |cluster: &mut Cluster, node: usize, key: usize, stream: usize, events: usize, wrng: &mut Rng| {
        let pk = keys[key];
        let hash = uuid_to_partition_hash(pk);
        let partition = hash % plan.partitions;
        write_no += 1;
        let evs: SmallVec<[NewEvent; 4]> = (0..events)
            .map(|e| NewEvent {
                event_id: make_id(hash, ((wrng.next_u64() as u128) << 64) | wrng.next_u64() as u128),
                stream_id: StreamId::new(stream_name(key, stream)).unwrap(),
                stream_version: ExpectedVersion::Any,
                event_name: "S".into(),
                timestamp: 1_700_000_000_000_000_000,
                metadata: vec![],
                payload: vec![e as u8; 4],
            })
            .collect();
        let txn_id = set_uuid_flag(Uuid::from_u128(((wrng.next_u64() as u128) << 64) | wrng.next_u64() as u128), events == 1);
        let txn = Transaction::new(pk, partition, evs).unwrap().with_transaction_id(txn_id);
        if let Some(actor) = cluster.nodes[node].actor.clone() {
            let done = done.clone();
            let acked = acked_writes.clone();
            cluster.spawn_on(node, async move {
                if actor.ask(ExecuteTransaction::new(txn)).await.is_ok() {
                    *acked.lock().unwrap() += 1;
                }
                done.fetch_add(1, Ordering::SeqCst);
            });
        }
        cluster.settle();
    };

    // preload: a history longer than one read batch on one stream
    for _ in 0..plan.preload {
        do_write(&mut cluster, 0, 0, 0, 1, &mut wrng);
        if plan.n > 1 {
            let t = cluster.now_ms + 12;
            cluster.run_until(t);
        }
    }
    let t = cluster.now_ms + 50;
    cluster.run_until(t);

    let mut subs: Vec<Sub> = Vec::new();
    let mut sched = Chain::new();
    for op in &plan.ops {
        sched.push_str(&format!("{op:?}"));
        if cluster.trace {
            eprintln!("t={} op {op:?}", cluster.now_ms);
        }
        match op {
            Op::Write { node, key, stream, events } if *node < plan.n && *key < plan.keys => do_write(&mut cluster, *node, *key, *stream, *events, &mut wrng),
            Op::Subscribe { node, kind, key, stream, from, window, race } if *node < plan.n && *key < plan.keys && cluster.is_up(*node) => {
                let db = cluster.nodes[*node].db.clone().unwrap();
                let all_partitions: BTreeSet<u16> = cluster.assigned_partitions(*node).into_iter().collect();
                let (partitions, streams): (BTreeSet<u16>, BTreeSet<String>) = match kind {
                    SubKind::Partition => (BTreeSet::from([key_partition[*key]]), BTreeSet::new()),
                    SubKind::Partitions => (key_partition.iter().copied().collect(), BTreeSet::new()),
                    SubKind::AllPartitions => (all_partitions.clone(), BTreeSet::new()),
                    SubKind::Stream => (BTreeSet::new(), BTreeSet::from([stream_name(*key, *stream)])),
                    SubKind::Streams => (BTreeSet::new(), (0..plan.streams).map(|s| stream_name(*key, s)).collect()),
                };
                let matcher = match kind {
                    SubKind::Partition => SubscriptionMatcher::Partition { partition_id: key_partition[*key], from_sequence: *from },
                    SubKind::Partitions => SubscriptionMatcher::Partitions { partition_ids: partitions.iter().copied().collect::<HashSet<u16>>(), from_sequences: match from { None => FromSequences::Latest, Some(f) => FromSequences::AllPartitions(*f) } },
                    SubKind::AllPartitions => SubscriptionMatcher::AllPartitions { from_sequences: match from { None => FromSequences::Latest, Some(f) => FromSequences::Partitions { from_sequences: HashMap::new(), fallback: Some(*f) } } },
                    SubKind::Stream => SubscriptionMatcher::Stream { partition_key: keys[*key], stream_id: StreamId::new(stream_name(*key, *stream)).unwrap(), from_version: *from },
                    SubKind::Streams => SubscriptionMatcher::Streams { stream_ids: (0..plan.streams).map(|s| (keys[*key], StreamId::new(stream_name(*key, s)).unwrap())).collect(), from_versions: match from { None => FromVersions::Latest, Some(f) => FromVersions::AllStreams(*f) } },
                };
                // order is checked from the start position; completeness from the start position or,
                // for a "from now" subscription, from what is confirmed on this node right now
                let mut start_seq = BTreeMap::new();
                let mut start_ver = BTreeMap::new();
                let mut complete_seq = BTreeMap::new();
                let mut complete_ver = BTreeMap::new();
                let mut node_logs: BTreeMap<u16, Vec<Stored>> = BTreeMap::new();
                for p in 0..plan.partitions {
                    node_logs.insert(p, read_log(&db, p).unwrap_or_default());
                }
                for p in &partitions {
                    match from {
                        Some(f) => {
                            start_seq.insert(*p, *f);
                            complete_seq.insert(*p, *f);
                        }
                        None => {
                            complete_seq.insert(*p, confirmed_prefix(&node_logs[p], quorum) as u64);
                        }
                    }
                }
                for s in &streams {
                    match from {
                        Some(f) => {
                            start_ver.insert(s.clone(), *f);
                            complete_ver.insert(s.clone(), *f);
                        }
                        None => {
                            let mut next = 0u64;
                            for log in node_logs.values() {
                                let w = confirmed_prefix(log, quorum);
                                if let Some(m) = log[..w].iter().filter(|e| &e.stream == s).map(|e| e.version + 1).max() {
                                    next = next.max(m);
                                }
                            }
                            complete_ver.insert(s.clone(), next);
                        }
                    }
                }
                let _ = db;
                let (update_tx, rx) = mpsc::unbounded_channel();
                let (ack_tx, last_ack_rx) = watch::channel(None);
                let actor = cluster.nodes[*node].actor.clone().unwrap();
                let msg = Subscribe { subscription_id: Uuid::from_u128(subs.len() as u128 + 1), matcher, last_ack_rx, update_tx, window_size: *window };
                cluster.spawn_on(*node, async move {
                    let _ = actor.ask(msg).await;
                });
                if *race > 0 {
                    sim::hold_subscriptions(true);
                }
                subs.push(Sub { node: *node, kind: kind.clone(), window: *window, partitions, streams, from: *from, start_seq, start_ver, complete_seq, complete_ver, rx, ack_tx, acked: None, received: Vec::new(), closed: None });
                cluster.settle();
                if *race > 0 {
                    let held_before = sim::subscriptions_held();
                    let t = cluster.now_ms + *race;
                    cluster.run_until(t);
                    if sim::subscriptions_held() > held_before + 10 {
                        *ctx.out.probes.entry("history_read_parked_between_batches".into()).or_insert(0) += 1;
                    }
                    sim::hold_subscriptions(false);
                    cluster.settle();
                }
            }
            Op::Ack { sub, lag } if *sub < subs.len() => {
                let s = &mut subs[*sub];
                let n = s.received.len() as u64;
                if n > *lag {
                    let upto = n - 1 - lag;
                    if s.acked.map(|a| upto > a).unwrap_or(true) {
                        s.acked = Some(upto);
                        let _ = s.ack_tx.send(Some(upto));
                    }
                }
                cluster.settle();
            }
            Op::Advance { ms } => {
                let t = cluster.now_ms + (*ms).min(10_000);
                cluster.run_until(t);
            }
            Op::Cut { a, b, on } if *a < plan.n && *b < plan.n && a != b => cluster.cut(*a, *b, *on),
            Op::Isolate { a, on } if *a < plan.n => cluster.isolate(*a, *on),
            _ => {}
        }
        ctx.drain(&mut subs, "after-op");
        if !ctx.out.violations.is_empty() {
            break;
        }
    }
    // faults stop; everything in flight resolves; the subscriber acknowledges everything it gets
    if ctx.out.violations.is_empty() {
        cluster.lossy = false;
        for a in 0..plan.n {
            cluster.isolate(a, false);
            for b in a + 1..plan.n {
                cluster.cut(a, b, false);
            }
        }
        // the slowest subscriber has a window of 1: one delivery per acknowledgement
        let mut idle = 0;
        for round in 0..5000 {
            if round < 4 {
                let t = cluster.now_ms + 6_000;
                cluster.run_until(t);
            } else {
                cluster.settle();
            }
            ctx.drain(&mut subs, "final");
            let mut progressed = false;
            for s in subs.iter_mut() {
                let n = s.received.len() as u64;
                if n > 0 && s.acked.map(|a| a + 1 < n).unwrap_or(true) {
                    s.acked = Some(n - 1);
                    let _ = s.ack_tx.send(Some(n - 1));
                    progressed = true;
                }
            }
            if progressed {
                idle = 0;
            } else if round >= 4 {
                idle += 1;
                if idle == 2 {
                    let t = cluster.now_ms + 300;
                    cluster.run_until(t);
                }
                if idle >= 4 {
                    break;
                }
            }
        }
        cluster.settle();
        ctx.drain(&mut subs, "final");
        // confirmed only, and complete up to the node's confirmed prefix
        let mut logs: BTreeMap<(usize, u16), Vec<Stored>> = BTreeMap::new();
        for node in 0..plan.n {
            if let Some(db) = &cluster.nodes[node].db {
                for p in 0..plan.partitions {
                    if let Ok(l) = read_log(db, p) {
                        logs.insert((node, p), l);
                    }
                }
            }
        }
        for (si, sub) in subs.iter().enumerate() {
            let kind = format!("{:?}", sub.kind);
            if let Some(c) = &sub.closed {
                if c.starts_with("error") {
                    ctx.violation("subscription-error", &kind, format!("subscription {si} ended with {c}"));
                }
                continue;
            }
            for r in &sub.received {
                ctx.out.evaluations += 1;
                let Some(log) = logs.get(&(sub.node, r.partition)) else { continue };
                let w = confirmed_prefix(log, ctx.quorum) as u64;
                match log.get(r.seq as usize) {
                    Some(e) if e.event == r.event => {
                        if r.seq >= w {
                            ctx.violation("unconfirmed-event-delivered", &kind, format!("subscription {si} on node {} received partition {} sequence {} but the node's confirmed prefix ends at {w}", sub.node, r.partition, r.seq));
                        }
                    }
                    _ => ctx.violation("delivered-event-not-in-log", &kind, format!("subscription {si} received an event at partition {} sequence {} that the node's log does not hold there", r.partition, r.seq)),
                }
            }
            // completeness: everything confirmed from the start position onwards was delivered
            match sub.kind {
                SubKind::Partition | SubKind::Partitions | SubKind::AllPartitions => {
                    for p in &sub.partitions {
                        let Some(log) = logs.get(&(sub.node, *p)) else { continue };
                        let w = confirmed_prefix(log, ctx.quorum) as u64;
                        let got: Vec<u64> = sub.received.iter().filter(|r| r.partition == *p).map(|r| r.seq).collect();
                        let Some(start) = sub.complete_seq.get(p).copied() else { continue };
                        let last = got.last().map(|l| l + 1).unwrap_or(start);
                        if last < w && start < w {
                            ctx.violation("confirmed-events-not-delivered", &kind, format!("after faults stopped: subscription {si} ({kind}, from {:?}, window {}) on node {} has partition {p} up to sequence {} but the node's confirmed prefix ends at {w}", sub.from, sub.window, sub.node, last as i64 - 1));
                        }
                    }
                }
                SubKind::Stream | SubKind::Streams => {
                    for sname in &sub.streams {
                        let mut confirmed_versions: Vec<u64> = Vec::new();
                        for p in 0..plan.partitions {
                            if let Some(log) = logs.get(&(sub.node, p)) {
                                let w = confirmed_prefix(log, ctx.quorum);
                                confirmed_versions.extend(log[..w].iter().filter(|e| &e.stream == sname).map(|e| e.version));
                            }
                        }
                        let Some(maxv) = confirmed_versions.iter().max().copied() else { continue };
                        let got: Vec<u64> = sub.received.iter().filter(|r| &r.stream == sname).map(|r| r.version).collect();
                        let Some(start) = sub.complete_ver.get(sname).copied() else { continue };
                        let next = got.last().map(|l| l + 1).unwrap_or(start);
                        if next <= maxv && start <= maxv {
                            ctx.violation("confirmed-events-not-delivered", &kind, format!("after faults stopped: subscription {si} ({kind}, from {:?}, window {}) on node {} has stream {sname} up to version {} but version {maxv} is confirmed", sub.from, sub.window, sub.node, next as i64 - 1));
                        }
                    }
                }
            }
        }
    }
    if cluster.trace {
        for (i, s) in subs.iter().enumerate() {
            eprintln!("sub {i} {:?} from {:?} window {} received {:?}", s.kind, s.from, s.window, s.received.iter().map(|r| (r.partition, r.seq, r.cursor)).collect::<Vec<_>>());
        }
    }
    let delivered: usize = subs.iter().map(|s| s.received.len()).sum();
    if !subs.is_empty() && delivered > 0 && *acked_writes.lock().unwrap() >= 2 {
        let mut c = Chain::new();
        c.push_u64(sched.0);
        c.push_u64(plan.n as u64);
        ctx.out.nontrivial = Some(c.0);
    }
    *ctx.out.probes.entry("records_delivered".into()).or_insert(0) += delivered as u64;
    *ctx.out.probes.entry("subscriptions".into()).or_insert(0) += subs.len() as u64;
    if plan.preload > 50 && subs.iter().any(|s| s.from.is_some() && s.received.len() > 50) {
        *ctx.out.probes.entry("history_longer_than_one_batch".into()).or_insert(0) += 1;
    }
    ctx.out.faults = cluster.faults.clone();
    for (k, v) in &cluster.probes {
        *ctx.out.probes.entry(k.clone()).or_insert(0) += v;
    }
    ctx.out.steps = cluster.steps;
    ctx.out.sim_nanos = cluster.now_ms * 1_000_000;
    ctx.out.schedule_hash = sched.0;
    let mut st = Chain::new();
    // the order across partitions / streams of one subscription is the code's own random choice
    // (rand::rng in read_partitions_history, HashMap order in read_streams_history): hash per key
    for s in &subs {
        st.push_u64(s.received.len() as u64);
        let mut recs: Vec<&Rec> = s.received.iter().collect();
        recs.sort_by(|a, b| (a.partition, &a.stream, a.seq).cmp(&(b.partition, &b.stream, b.seq)));
        for r in recs {
            st.push(r.event.as_bytes());
        }
    }
    ctx.out.state_hash = st.0;
    ctx.out.event_hash = st.0 ^ sched.0;
    ctx.out.evaluations = ctx.out.evaluations.max(1);
    ctx.out.sample = Some(json!({"n": plan.n, "rf": plan.rf, "ops": plan.ops.len(), "preload": plan.preload, "subs": subs.len(), "delivered": delivered}));
    drop(subs);
    cluster.shutdown();
    ctx.out
}
