//! C14 — every partition has exactly min(rf, N) distinct replicas, the same on every node.
//! Engine E: real `sierradb_topology::Behaviour<ActorId>` (message glue, intervals, swarm-event
//! handling) around the real `TopologyManager`, one per simulated node, all inside one paused
//! tokio runtime. gossipsub itself is not run: every published message is copied by hook T2 into
//! an outbox, and the simulated bus below delivers it (delay, loss, reordering, cuts) through
//! `Behaviour::verif_deliver`. Connections are real `FromSwarm` events.

use std::collections::{BTreeMap, BTreeSet, HashSet};
use std::task::{Context, Poll};
use std::time::Duration;

use kameo::actor::ActorId;
use libp2p::core::transport::PortUse;
use libp2p::core::{ConnectedPoint, Endpoint};
use libp2p::swarm::behaviour::{ConnectionClosed, ConnectionEstablished};
use libp2p::swarm::{ConnectionId, FromSwarm, NetworkBehaviour};
use libp2p::{Multiaddr, PeerId, gossipsub, identity};
use serde::{Deserialize, Serialize};
use serde_json::{Value, json};
use sierradb_topology::test_helpers::create_test_peer_id;
use sierradb_topology::{Behaviour, TopologyManager};
use simcore::runner::Tier;
use simcore::{Chain, Rng, RunOutcome, Violation};

use crate::{driver, sim};

#[derive(Clone, Debug, Serialize, Deserialize, PartialEq)]
#[serde(tag = "op")]
pub enum Op {
    /// a connection between two live nodes comes up (both sides see ConnectionEstablished)
    Connect { a: usize, b: usize },
    /// the connection closes (both sides see ConnectionClosed)
    Disconnect { a: usize, b: usize },
    /// messages between a and b are dropped while the connection stays up (silent partition)
    Cut { a: usize, b: usize, on: bool },
    /// simulated time passes: heartbeats, timeout checks, deliveries
    Advance { ms: u64 },
    /// the node process dies and comes back with a new alive_since; `notify`: peers see the close
    Restart { a: usize, notify: bool },
}

#[derive(Clone, Debug, Serialize, Deserialize)]
pub struct C14Plan {
    pub n: usize,
    pub buckets: u16,
    pub partitions: u16,
    pub rf: u8,
    /// configured node indices of the nodes that exist in the simulation
    pub live: Vec<usize>,
    pub hb_interval_ms: u64,
    pub hb_timeout_ms: u64,
    pub loss_pct: u64,
    pub max_delay_ms: u64,
    /// wall-clock offset of each live node's start (alive_since is in whole seconds: ties are common)
    pub start_ms: Vec<u64>,
    pub ops: Vec<Op>,
    pub seed: u64,
    /// check the static assignment over all N configured nodes as well
    pub static_check: bool,
}

pub fn plan(tier: Tier, seed: u64) -> Value {
    let mut rng = Rng::new(seed);
    let large = rng.chance(1, match tier { Tier::Quick => 40, Tier::Thorough => 30 });
    let n: usize = if large { *rng.pick(&[255usize, 256, 257, 300, 512, 1000]) } else { let cap = match rng.below(4) { 0 => 3, 1 => 5, 2 => 8, _ => 12 }; 1 + rng.usize_below(cap) };
    let buckets = *rng.pick(&[1u16, 2, 3, 4, 5, 7, 8, 10, 16, 64]);
    let partitions = if large { *rng.pick(&[64u16, 100, 256]) } else { *rng.pick(&[1u16, 4, 8, 10, 24, 32, 100]) };
    let rf = if rng.chance(1, 5) { 1 + rng.below(12) as u8 } else { 1 + rng.below(4) as u8 };
    let k = n.min(1 + rng.usize_below(5));
    // live nodes: boundary-biased distinct indices
    let mut pool: Vec<usize> = (0..n.min(16)).collect();
    for extra in [n - 1, n / 2, 254, 255, 256, 257] {
        if extra < n && !pool.contains(&extra) {
            pool.push(extra);
        }
    }
    rng.shuffle(&mut pool);
    let mut live: Vec<usize> = pool.into_iter().take(k).collect();
    live.sort();
    let hb_interval_ms = *rng.pick(&[500u64, 1000, 2000]);
    let hb_timeout_ms = hb_interval_ms * (2 + rng.below(3));
    let loss_pct = *rng.pick(&[0u64, 0, 5, 25]);
    let max_delay_ms = *rng.pick(&[0u64, 20, 300, 1500]);
    let same_second = rng.chance(2, 3);
    let start_ms: Vec<u64> = (0..k).map(|_| if same_second { rng.below(900) } else { rng.below(5000) }).collect();
    let mut ops = Vec::new();
    let nops = 3 + rng.usize_below(match tier { Tier::Quick => 14, Tier::Thorough => 24 });
    for _ in 0..nops {
        let a = rng.usize_below(k);
        let b = if k > 1 { (a + 1 + rng.usize_below(k - 1)) % k } else { a };
        let op = match rng.weighted(&[8, 2, 2, 6, 1]) {
            0 if k > 1 => Op::Connect { a, b },
            1 if k > 1 => Op::Disconnect { a, b },
            2 if k > 1 => Op::Cut { a, b, on: rng.chance(2, 3) },
            4 => Op::Restart { a, notify: rng.chance(3, 4) },
            _ => Op::Advance { ms: *rng.pick(&[10u64, 100, 400, 1000, 2500, 7000]) },
        };
        ops.push(op);
    }
    serde_json::to_value(C14Plan { n, buckets, partitions, rf, live, hb_interval_ms, hb_timeout_ms, loss_pct, max_delay_ms, start_ms, ops, seed: rng.next_u64() >> 8, static_check: large || rng.chance(1, 3) }).unwrap()
}

struct Node {
    index: usize,
    peer: PeerId,
    behaviour: Behaviour<ActorId>,
    /// peers this node believes it has a connection with
    conns: BTreeSet<usize>,
    generation: u64,
}

struct Msg {
    at_ms: u64,
    seq: u64,
    to: usize,
    to_generation: u64,
    from: PeerId,
    topic: &'static str,
    data: Vec<u8>,
}

struct World {
    plan: C14Plan,
    nodes: Vec<Node>,
    /// owners by configured index, from a real manager of that index
    owns: BTreeMap<usize, HashSet<u16>>,
    links: BTreeSet<(usize, usize)>,
    cuts: BTreeSet<(usize, usize)>,
    queue: Vec<Msg>,
    now_ms: u64,
    seq: u64,
    rng: Rng,
    lossy: bool,
    chain: Chain,
    out: RunOutcome,
    conn_seq: usize,
    trace: bool,
    final_phase: bool,
}

fn pair(a: usize, b: usize) -> (usize, usize) {
    if a < b { (a, b) } else { (b, a) }
}

fn make_manager(plan: &C14Plan, index: usize) -> TopologyManager<ActorId> {
    let peer = create_test_peer_id(index);
    TopologyManager::new(ActorId::new_with_peer_id(0, peer), index, plan.n, plan.partitions, plan.buckets, plan.rf, Duration::from_millis(plan.hb_timeout_ms))
}

fn make_behaviour(plan: &C14Plan, index: usize) -> Behaviour<ActorId> {
    let key = identity::Keypair::generate_ed25519();
    let config = gossipsub::ConfigBuilder::default().heartbeat_interval(Duration::from_secs(1)).validation_mode(gossipsub::ValidationMode::Strict).build().expect("gossipsub config");
    let gs = gossipsub::Behaviour::new(gossipsub::MessageAuthenticity::Signed(key), config).expect("gossipsub");
    Behaviour::new(gs, make_manager(plan, index), Duration::from_millis(plan.hb_interval_ms))
}

fn endpoint() -> ConnectedPoint {
    ConnectedPoint::Dialer { address: "/ip4/127.0.0.1/tcp/1".parse::<Multiaddr>().unwrap(), role_override: Endpoint::Dialer, port_use: PortUse::Reuse }
}

impl World {
    fn violation(&mut self, sig: &str, detail: String) {
        if self.out.violations.len() < 4 && !self.out.violations.iter().any(|v| v.signature == sig) {
            self.out.violations.push(Violation { signature: sig.to_string(), detail });
        }
    }

    fn probe(&mut self, name: &str) {
        *self.out.probes.entry(name.to_string()).or_insert(0) += 1;
    }

    fn fault(&mut self, name: &str) {
        *self.out.faults.entry(name.to_string()).or_insert(0) += 1;
    }

    fn pos_of_peer(&self, peer: &PeerId) -> Option<usize> {
        self.nodes.iter().position(|n| &n.peer == peer)
    }

    /// nodes reachable from `from` over links that are up (gossip forwards along the mesh); a cut pair
    /// does not carry messages
    fn reachable(&self, from: usize) -> Vec<usize> {
        let mut seen = BTreeSet::from([from]);
        let mut stack = vec![from];
        while let Some(x) = stack.pop() {
            for y in 0..self.nodes.len() {
                if !seen.contains(&y) && self.links.contains(&pair(x, y)) && !self.cuts.contains(&pair(x, y)) {
                    seen.insert(y);
                    stack.push(y);
                }
            }
        }
        seen.remove(&from);
        seen.into_iter().collect()
    }

    /// broadcast what node `from` published during the last call
    fn flush_outbox(&mut self, from: usize) {
        let msgs = sierradb_topology::verif::take_outbox();
        if msgs.is_empty() {
            return;
        }
        let recipients = self.reachable(from);
        for (_from, topic, data) in msgs {
            self.chain.push_str(topic);
            self.chain.push_u64(from as u64);
            for &to in &recipients {
                if self.lossy && self.plan.loss_pct > 0 && self.rng.chance(self.plan.loss_pct, 100) {
                    self.fault("message_lost");
                    continue;
                }
                // once faults stop, delivery is prompt (a delay beyond the heartbeat timeout is itself a fault)
                let max_delay = if self.final_phase { self.plan.max_delay_ms.min(20) } else { self.plan.max_delay_ms };
                let delay = if max_delay == 0 { 0 } else { self.rng.below(max_delay + 1) };
                if delay > 0 {
                    self.fault("message_delayed");
                }
                self.seq += 1;
                self.queue.push(Msg { at_ms: self.now_ms + delay, seq: self.seq, to, to_generation: self.nodes[to].generation, from: self.nodes[from].peer, topic, data: data.clone() });
            }
        }
    }

    fn poll_node(&mut self, i: usize) {
        let waker = futures::task::noop_waker();
        let mut cx = Context::from_waker(&waker);
        for _ in 0..64 {
            match self.nodes[i].behaviour.poll(&mut cx) {
                Poll::Ready(_) => {}
                Poll::Pending => break,
            }
        }
        self.flush_outbox(i);
    }

    fn deliver_due(&mut self) {
        loop {
            let mut best: Option<usize> = None;
            for (i, m) in self.queue.iter().enumerate() {
                if m.at_ms <= self.now_ms && best.map(|b| (m.at_ms, m.seq) < (self.queue[b].at_ms, self.queue[b].seq)).unwrap_or(true) {
                    best = Some(i);
                }
            }
            let Some(i) = best else { return };
            let m = self.queue.swap_remove(i);
            if self.nodes[m.to].generation != m.to_generation {
                self.fault("message_to_dead_process");
                continue;
            }
            if m.topic == "sierra/ownership" {
                self.probe("ownership_message_delivered");
            }
            self.chain.push_u64(m.to as u64);
            self.chain.push_str(m.topic);
            self.chain.push_u64(m.data.len() as u64);
            self.nodes[m.to].behaviour.verif_deliver(m.from, m.topic, &m.data);
            if self.trace {
                let from = self.pos_of_peer(&m.from).map(|p| self.nodes[p].index);
                let mgr = &self.nodes[m.to].behaviour.manager;
                let mut active: Vec<usize> = mgr.active_nodes.values().map(|v| v.1).collect();
                active.sort();
                eprintln!("t={} deliver {} ({} bytes) from index {:?} to index {} -> active {:?}", self.now_ms, m.topic, m.data.len(), from, self.nodes[m.to].index, active);
            }
            self.out.steps += 1;
            self.flush_outbox(m.to);
            self.poll_node(m.to);
            self.check_node(m.to, "after-delivery");
            self.check_pairs("after-delivery");
        }
    }

    fn establish(&mut self, at: usize, other: usize) {
        let peer = self.nodes[other].peer;
        self.conn_seq += 1;
        let id = ConnectionId::new_unchecked(self.conn_seq);
        let ep = endpoint();
        let addr: Multiaddr = "/ip4/127.0.0.1/tcp/1".parse().unwrap();
        let _ = self.nodes[at].behaviour.handle_established_outbound_connection(id, peer, &addr, Endpoint::Dialer, PortUse::Reuse);
        self.nodes[at].behaviour.on_swarm_event(FromSwarm::ConnectionEstablished(ConnectionEstablished { peer_id: peer, connection_id: id, endpoint: &ep, failed_addresses: &[], other_established: 0 }));
        self.nodes[at].conns.insert(other);
        self.flush_outbox(at);
    }

    fn close(&mut self, at: usize, other: usize) {
        if !self.nodes[at].conns.remove(&other) {
            return;
        }
        let peer = self.nodes[other].peer;
        let ep = endpoint();
        self.nodes[at].behaviour.on_swarm_event(FromSwarm::ConnectionClosed(ConnectionClosed { peer_id: peer, connection_id: ConnectionId::new_unchecked(0), endpoint: &ep, cause: None, remaining_established: 0 }));
        self.flush_outbox(at);
    }

    async fn advance(&mut self, ms: u64) {
        let target = self.now_ms + ms;
        while self.now_ms < target {
            let step = 50.min(target - self.now_ms);
            self.now_ms += step;
            tokio::time::advance(Duration::from_millis(step)).await;
            sim::sim().advance(step * 1_000_000);
            self.deliver_due();
            let mut order: Vec<usize> = (0..self.nodes.len()).collect();
            self.rng.shuffle(&mut order);
            for i in order {
                self.poll_node(i);
                self.check_node(i, "after-tick");
            }
            self.deliver_due();
        }
        self.out.sim_nanos += ms * 1_000_000;
        self.check_pairs("after-tick");
    }

    fn replica_sets(&self, i: usize) -> BTreeMap<u16, BTreeSet<PeerId>> {
        self.nodes[i].behaviour.manager.partition_replicas.iter().map(|(p, r)| (*p, r.iter().map(|a| *a.peer_id().unwrap()).collect())).collect()
    }

    /// invariants of one node's own view
    fn check_node(&mut self, i: usize, when: &str) {
        self.out.evaluations += 1;
        let m = &self.nodes[i].behaviour.manager;
        let me = self.nodes[i].peer;
        let rf_eff = (self.plan.rf as usize).min(self.plan.n);
        let mut problems: Vec<(String, String)> = Vec::new();
        if !m.active_nodes.contains_key(&me) {
            problems.push(("self-not-active".into(), format!("node index {} no longer lists itself as active", self.nodes[i].index)));
        }
        for p in 0..self.plan.partitions {
            let reps = m.partition_replicas.get(&p);
            let peers: Vec<PeerId> = reps.map(|r| r.iter().map(|a| *a.peer_id().unwrap()).collect()).unwrap_or_default();
            let set: BTreeSet<PeerId> = peers.iter().copied().collect();
            if set.len() != peers.len() {
                problems.push(("duplicate-replica".into(), format!("node index {} lists a node twice for partition {p}", self.nodes[i].index)));
            }
            if set.len() > rf_eff {
                problems.push(("too-many-replicas".into(), format!("node index {}: partition {p} has {} replicas, min(rf, N) = {rf_eff}", self.nodes[i].index, set.len())));
            }
            // "a node owns a partition iff it appears in that partition's replica set", over the nodes
            // this node knows to be live (and whose address it knows)
            let mut expected: BTreeSet<PeerId> = BTreeSet::new();
            for (peer, (_, idx)) in &m.active_nodes {
                if !m.cluster_nodes.contains_key(peer) {
                    continue;
                }
                if self.owns.get(idx).map(|o| o.contains(&p)).unwrap_or(false) {
                    expected.insert(*peer);
                }
            }
            if m.has_partition(p) != set.contains(&me) {
                problems.push(("own-partition-not-in-own-replica-set".into(), format!("{when}: node index {} has_partition({p}) = {} but its replica set for {p} {} it", self.nodes[i].index, m.has_partition(p), if set.contains(&me) { "contains" } else { "does not contain" })));
            } else if set != expected {
                problems.push(("replica-set-not-owners-among-known-live".into(), format!("{when}: node index {} partition {p}: replica set has {} members, the owners among the nodes it knows live are {}", self.nodes[i].index, set.len(), expected.len())));
            }
            if problems.len() > 2 {
                break;
            }
        }
        for (clause, detail) in problems {
            self.violation(&format!("C14/{clause}/TopologyManager/view"), detail);
        }
    }

    /// any two nodes with the same knowledge of live members agree on sets and coordinator order
    fn check_pairs(&mut self, when: &str) {
        let k = self.nodes.len();
        for a in 0..k {
            for b in a + 1..k {
                self.out.evaluations += 1;
                let (ma, mb) = (&self.nodes[a].behaviour.manager, &self.nodes[b].behaviour.manager);
                let ka: BTreeMap<PeerId, (u64, usize)> = ma.active_nodes.iter().map(|(p, v)| (*p, *v)).collect();
                let kb: BTreeMap<PeerId, (u64, usize)> = mb.active_nodes.iter().map(|(p, v)| (*p, *v)).collect();
                if ka != kb {
                    continue;
                }
                // same addresses known for those members
                if ka.keys().any(|p| ma.cluster_nodes.contains_key(p) != mb.cluster_nodes.contains_key(p)) {
                    continue;
                }
                if ka.len() > 1 {
                    self.probe("pair_with_equal_membership_knowledge");
                }
                let (sa, sb) = (self.replica_sets(a), self.replica_sets(b));
                if sa != sb {
                    let p = (0..self.plan.partitions).find(|p| sa.get(p) != sb.get(p)).unwrap_or(0);
                    let detail = format!("{when}: node indices {} and {} know the same {} live members but disagree on the replica set of partition {p}", self.nodes[a].index, self.nodes[b].index, ka.len());
                    self.violation("C14/replica-sets-differ/same-membership/pair", detail);
                    continue;
                }
                for p in 0..self.plan.partitions {
                    let oa: Vec<(PeerId, u64)> = self.nodes[a].behaviour.manager.get_available_replicas(p).iter().map(|(r, s)| (*r.peer_id().unwrap(), *s)).collect();
                    let ob: Vec<(PeerId, u64)> = self.nodes[b].behaviour.manager.get_available_replicas(p).iter().map(|(r, s)| (*r.peer_id().unwrap(), *s)).collect();
                    if oa != ob {
                        let detail = format!("{when}: node indices {} and {} know the same live members but order the replicas of partition {p} differently", self.nodes[a].index, self.nodes[b].index);
                        self.violation("C14/coordinator-order-differs/same-membership/pair", detail);
                        break;
                    }
                    if oa.len() > 1 && oa.windows(2).any(|w| w[0].1 == w[1].1) {
                        self.probe("coordinator_order_tie_on_alive_since");
                    }
                }
            }
        }
    }

    /// the static assignment over all N configured nodes
    fn static_check(&mut self) {
        let plan = self.plan.clone();
        let rf_eff = (plan.rf as usize).min(plan.n);
        let managers: Vec<TopologyManager<ActorId>> = (0..plan.n).map(|i| make_manager(&plan, i)).collect();
        for p in 0..plan.partitions {
            self.out.evaluations += 1;
            let owners = managers.iter().filter(|m| m.has_partition(p)).count();
            if owners != rf_eff {
                self.violation("C14/owner-count/calculate_assigned_partitions/static", format!("N={} buckets={} partitions={} rf={}: partition {p} is owned by {owners} nodes, min(rf, N) = {rf_eff}", plan.n, plan.buckets, plan.partitions, plan.rf));
                break;
            }
        }
        // one node hears a heartbeat of every other node: its replica sets are the owners
        let mut hub = managers[self.rng.usize_below(plan.n)].clone();
        let mut order: Vec<usize> = (0..plan.n).collect();
        self.rng.shuffle(&mut order);
        for i in order {
            if i == hub.local_node_index {
                continue;
            }
            let m = &managers[i];
            hub.on_heartbeat(m.local_cluster_ref, &m.assigned_partitions, m.alive_since, i, plan.n);
        }
        for p in 0..plan.partitions {
            self.out.evaluations += 1;
            let reps: Vec<PeerId> = hub.partition_replicas.get(&p).map(|r| r.iter().map(|a| *a.peer_id().unwrap()).collect()).unwrap_or_default();
            let set: BTreeSet<PeerId> = reps.iter().copied().collect();
            let owners: BTreeSet<PeerId> = managers.iter().filter(|m| m.has_partition(p)).map(|m| *m.local_cluster_ref.peer_id().unwrap()).collect();
            if set.len() != reps.len() || set.len() != rf_eff {
                self.violation("C14/replica-count/calculate_partition_replicas/static", format!("N={} buckets={} partitions={} rf={}: with every member known partition {p} has {} distinct replicas, min(rf, N) = {rf_eff}", plan.n, plan.buckets, plan.partitions, plan.rf, set.len()));
                break;
            }
            if set != owners {
                self.violation("C14/replicas-are-not-the-owners/calculate_partition_replicas/static", format!("N={} buckets={} partitions={} rf={}: the replica set of partition {p} differs from the nodes that own it", plan.n, plan.buckets, plan.partitions, plan.rf));
                break;
            }
        }
        if plan.n >= 256 {
            self.probe("static_check_n_ge_256");
        }
    }

    fn restart(&mut self, a: usize, notify: bool) {
        let peers: Vec<usize> = (0..self.nodes.len()).filter(|&b| b != a && self.links.contains(&pair(a, b))).collect();
        for &b in &peers {
            self.links.remove(&pair(a, b));
            if notify {
                self.close(b, a);
            }
        }
        sierradb_topology::verif::take_outbox();
        let index = self.nodes[a].index;
        self.nodes[a].behaviour = make_behaviour(&self.plan, index);
        self.nodes[a].conns.clear();
        self.nodes[a].generation += 1;
        self.fault("node_restart");
        for &b in &peers {
            self.check_node(b, "after-peer-restart");
        }
    }

    fn connect(&mut self, a: usize, b: usize) {
        if self.links.contains(&pair(a, b)) {
            return;
        }
        // a peer that never saw the old connection close sees that now
        if self.nodes[a].conns.contains(&b) {
            self.close(a, b);
        }
        if self.nodes[b].conns.contains(&a) {
            self.close(b, a);
        }
        self.links.insert(pair(a, b));
        if self.rng.chance(1, 2) {
            self.establish(a, b);
            self.establish(b, a);
        } else {
            self.establish(b, a);
            self.establish(a, b);
        }
    }
}

pub fn execute(plan_v: &Value) -> RunOutcome {
    let plan: C14Plan = match serde_json::from_value(plan_v.clone()) {
        Ok(p) => p,
        Err(e) => {
            let mut out = RunOutcome::default();
            out.violations.push(Violation { signature: "C14/harness/bad-plan/parse".into(), detail: e.to_string() });
            return out;
        }
    };
    let rt = tokio::runtime::Builder::new_current_thread().enable_all().start_paused(true).build().expect("runtime");
    let simh = sim::sim();
    simh.reset_clock();
    let res = crate::util::catch(|| rt.block_on(driver::spin(run(plan.clone()))));
    drop(rt);
    match res {
        Ok(out) => out,
        Err(panic) => {
            let mut out = RunOutcome::default();
            out.evaluations = 1;
            let site = panic.split(" at ").nth(1).unwrap_or("").split(':').next().unwrap_or("").rsplit('/').next().unwrap_or("").to_string();
            out.violations.push(Violation { signature: format!("C14/panic/{site}/topology"), detail: panic });
            out
        }
    }
}

async fn run(plan: C14Plan) -> RunOutcome {
    let k = plan.live.len();
    let simh = sim::sim();
    let mut w = World { plan: plan.clone(), nodes: Vec::new(), owns: BTreeMap::new(), links: BTreeSet::new(), cuts: BTreeSet::new(), queue: Vec::new(), now_ms: 0, seq: 0, rng: Rng::new(plan.seed), lossy: true, chain: Chain::new(), out: RunOutcome::default(), conn_seq: 0, trace: std::env::var_os("VERIF_TRACE").is_some(), final_phase: false };
    sierradb_topology::verif::take_outbox();
    if plan.static_check {
        w.static_check();
    }
    for (pos, &index) in plan.live.iter().enumerate() {
        // each node reads its own wall clock when it starts
        simh.wall.store(sim::WALL_START + plan.start_ms.get(pos).copied().unwrap_or(0) * 1_000_000, std::sync::atomic::Ordering::SeqCst);
        let behaviour = make_behaviour(&plan, index);
        w.owns.insert(index, behaviour.manager.assigned_partitions.clone());
        w.nodes.push(Node { index, peer: create_test_peer_id(index), behaviour, conns: BTreeSet::new(), generation: 0 });
    }
    simh.wall.store(sim::WALL_START + 6_000_000_000, std::sync::atomic::Ordering::SeqCst);
    for i in 0..k {
        w.poll_node(i);
        w.check_node(i, "at-start");
    }
    let mut sched = Chain::new();
    for op in plan.ops.clone() {
        w.out.steps += 1;
        sched.push_str(&format!("{op:?}"));
        if w.trace {
            eprintln!("t={} op {op:?}", w.now_ms);
        }
        match op {
            Op::Connect { a, b } if a < k && b < k && a != b => {
                w.connect(a, b);
                w.deliver_due();
                w.check_node(a, "after-connect");
                w.check_node(b, "after-connect");
            }
            Op::Disconnect { a, b } if a < k && b < k && a != b => {
                if w.links.remove(&pair(a, b)) {
                    w.fault("connection_closed");
                    w.close(a, b);
                    w.close(b, a);
                    w.check_node(a, "after-disconnect");
                    w.check_node(b, "after-disconnect");
                }
            }
            Op::Cut { a, b, on } if a < k && b < k && a != b => {
                if on {
                    if w.cuts.insert(pair(a, b)) {
                        w.fault("silent_partition");
                    }
                } else {
                    w.cuts.remove(&pair(a, b));
                }
            }
            Op::Advance { ms } => w.advance(ms.min(20_000)).await,
            Op::Restart { a, notify } if a < k => w.restart(a, notify),
            _ => {}
        }
        w.check_pairs("after-op");
        if !w.out.violations.is_empty() {
            break;
        }
    }
    // faults stop: heal, connect everybody, and let two heartbeat rounds pass
    if w.out.violations.is_empty() {
        w.lossy = false;
        w.final_phase = true;
        // what is still in flight arrives (late) before the quiet period starts
        w.advance(plan.max_delay_ms).await;
        w.cuts.clear();
        for a in 0..k {
            for b in a + 1..k {
                w.connect(a, b);
            }
        }
        w.deliver_due();
        let settle = plan.max_delay_ms + 2 * plan.hb_interval_ms + 100;
        w.advance(settle).await;
        w.advance(settle).await;
        // bounded liveness and agreement: every node knows every live node, and all agree
        let all: BTreeSet<PeerId> = w.nodes.iter().map(|n| n.peer).collect();
        for i in 0..k {
            let known: BTreeSet<PeerId> = w.nodes[i].behaviour.manager.active_nodes.keys().copied().collect();
            if known != all {
                let detail = format!("after faults stopped and {} ms of heartbeats, node index {} knows {} of {} live nodes", 2 * settle, w.nodes[i].index, known.len(), all.len());
                w.violation("C14/membership-not-converged/heartbeat/final", detail);
            }
            w.check_node(i, "final");
        }
        w.check_pairs("final");
        // with the same live members known everywhere the replica sets are the same everywhere
        for i in 1..k {
            w.out.evaluations += 1;
            if w.replica_sets(i) != w.replica_sets(0) {
                let detail = format!("final: node indices {} and {} know the same live members but hold different replica sets", w.nodes[0].index, w.nodes[i].index);
                w.violation("C14/replica-sets-differ/same-membership/final", detail);
            }
            let ka: BTreeMap<PeerId, u64> = w.nodes[0].behaviour.manager.active_nodes.iter().map(|(p, v)| (*p, v.0)).collect();
            let kb: BTreeMap<PeerId, u64> = w.nodes[i].behaviour.manager.active_nodes.iter().map(|(p, v)| (*p, v.0)).collect();
            if ka != kb {
                w.probe("final_alive_since_knowledge_differs");
            }
            // same live members known (checked above): same coordinator order
            if ka.keys().eq(kb.keys()) {
                for p in 0..plan.partitions {
                    let oa: Vec<PeerId> = w.nodes[0].behaviour.manager.get_available_replicas(p).iter().map(|(r, _)| *r.peer_id().unwrap()).collect();
                    let ob: Vec<PeerId> = w.nodes[i].behaviour.manager.get_available_replicas(p).iter().map(|(r, _)| *r.peer_id().unwrap()).collect();
                    if oa != ob {
                        let detail = format!("final: node indices {} and {} know the same live members but order the replicas of partition {p} differently (alive_since known: {:?} vs {:?})", w.nodes[0].index, w.nodes[i].index, ka.values().collect::<Vec<_>>(), kb.values().collect::<Vec<_>>());
                        w.violation("C14/coordinator-order-differs/same-members/final", detail);
                        break;
                    }
                }
            }
        }
    }
    // non-trivial: an ownership response reached a node that also heard heartbeats, with >= 3 live nodes
    let ownership = w.out.probes.get("ownership_message_delivered").copied().unwrap_or(0);
    if k >= 3 && ownership >= 2 {
        let mut c = Chain::new();
        c.push_u64(plan.n as u64);
        c.push_u64(k as u64);
        c.push_u64(sched.0);
        w.out.nontrivial = Some(c.0);
    }
    let mut st = Chain::new();
    for i in 0..k {
        for (p, set) in w.replica_sets(i) {
            st.push_u64(p as u64);
            for peer in set {
                st.push(&peer.to_bytes());
            }
        }
    }
    w.out.schedule_hash = sched.0;
    w.out.state_hash = st.0;
    w.chain.push_u64(st.0);
    w.out.event_hash = w.chain.0;
    w.out.evaluations = w.out.evaluations.max(1);
    w.out.sample = Some(json!({"n": plan.n, "live": plan.live, "buckets": plan.buckets, "partitions": plan.partitions, "rf": plan.rf, "ops": plan.ops.len(), "loss_pct": plan.loss_pct, "max_delay_ms": plan.max_delay_ms}));
    w.out
}
