//! The `seglog::verif::Sim` installed by clustersim: records hook points and lets the harness run a
//! callback at them (same thread), e.g. to snapshot the confirmation directory between the steps
//! of `persist_bucket_state`. Clocks stay real unless a simulated value is set.

use std::cell::RefCell;
use std::sync::Arc;
use std::sync::atomic::{AtomicBool, AtomicU64, Ordering};

use seglog::verif::{Action, Sim};

thread_local! {
    static HOOK: RefCell<Option<Box<dyn FnMut(&'static str, u64, u64)>>> = const { RefCell::new(None) };
}

pub struct ClusterSim {
    pub mono: AtomicU64,
    pub wall: AtomicU64,
    pub clocks_on: AtomicBool,
}

pub const WALL_START: u64 = 1_700_000_000_000_000_000;

static SENT: AtomicU64 = AtomicU64::new(0);
static DONE: AtomicU64 = AtomicU64::new(0);
static READER_PLUS: AtomicU64 = AtomicU64::new(0);
static READER_MINUS: AtomicU64 = AtomicU64::new(0);
static DEQUEUED: std::sync::Mutex<Vec<u64>> = std::sync::Mutex::new(Vec::new());
/// global order of observable moments (stored confirmation counts, client acknowledgements)
static ORDER: AtomicU64 = AtomicU64::new(0);
static CONFIRMED: std::sync::Mutex<Vec<(u64, u64, u64, u8)>> = std::sync::Mutex::new(Vec::new());

/// while set, subscription history reads park between batches (hook K3)
static HOLD_SUBS: AtomicBool = AtomicBool::new(false);
static SUBS_HELD: AtomicU64 = AtomicU64::new(0);

/// while set, the confirmation actor does not start processing UpdateConfirmationWithBroadcast (hook K7)
static HOLD_CONFIRM: AtomicBool = AtomicBool::new(false);

pub fn hold_confirmation_updates(on: bool) {
    HOLD_CONFIRM.store(on, Ordering::SeqCst);
}

pub fn hold_subscriptions(on: bool) {
    HOLD_SUBS.store(on, Ordering::SeqCst);
}

/// how often a subscription has been found parked between two history batches
pub fn subscriptions_held() -> u64 {
    SUBS_HELD.load(Ordering::SeqCst)
}

pub fn next_order() -> u64 {
    ORDER.fetch_add(1, Ordering::SeqCst)
}

/// (order, transaction id high half, low half without its last byte, count) of every stored confirmation count
pub fn confirmations_stored() -> Vec<(u64, u64, u64, u8)> {
    CONFIRMED.lock().unwrap().clone()
}

#[derive(Clone, Copy, Debug, PartialEq, Eq)]
pub struct Activity {
    pub sent: u64,
    pub done: u64,
    pub reader_plus: u64,
    pub reader_minus: u64,
}

impl Activity {
    pub fn busy(&self) -> bool {
        self.sent != self.done || self.reader_plus > self.reader_minus
    }
}

pub fn activity() -> Activity {
    Activity { sent: SENT.load(Ordering::SeqCst), done: DONE.load(Ordering::SeqCst), reader_plus: READER_PLUS.load(Ordering::SeqCst), reader_minus: READER_MINUS.load(Ordering::SeqCst) }
}

/// After a database was shut down (its Shutdown message is dequeued without having been counted
/// as sent): everything outstanding is finished, start counting afresh.
pub fn rebaseline() {
    SENT.store(DONE.load(Ordering::SeqCst).max(SENT.load(Ordering::SeqCst)), Ordering::SeqCst);
    DONE.store(SENT.load(Ordering::SeqCst), Ordering::SeqCst);
    // reader jobs are always paired; give stragglers of the closed database a moment, then resync
    let start = std::time::Instant::now();
    while READER_PLUS.load(Ordering::SeqCst) != READER_MINUS.load(Ordering::SeqCst) && start.elapsed().as_millis() < 200 {
        std::thread::yield_now();
    }
    READER_MINUS.store(READER_PLUS.load(Ordering::SeqCst), Ordering::SeqCst);
    DEQUEUED.lock().unwrap().clear();
}

pub fn reset_activity() {
    HOLD_CONFIRM.store(false, Ordering::SeqCst);
    HOLD_SUBS.store(false, Ordering::SeqCst);
    SUBS_HELD.store(0, Ordering::SeqCst);
    ORDER.store(0, Ordering::SeqCst);
    CONFIRMED.lock().unwrap().clear();
    SENT.store(0, Ordering::SeqCst);
    DONE.store(0, Ordering::SeqCst);
    READER_PLUS.store(0, Ordering::SeqCst);
    READER_MINUS.store(0, Ordering::SeqCst);
    DEQUEUED.lock().unwrap().clear();
}

impl Sim for ClusterSim {
    fn point(&self, site: &'static str, a: u64, b: u64) -> Action {
        match site {
            "client:sent" => {
                SENT.fetch_add(1, Ordering::SeqCst);
            }
            "writer:dequeued" => {
                DEQUEUED.lock().unwrap().push(a);
            }
            "writer:idle" => {
                let mut d = DEQUEUED.lock().unwrap();
                if let Some(pos) = d.iter().position(|x| *x == a) {
                    d.remove(pos);
                    DONE.fetch_add(1, Ordering::SeqCst);
                }
            }
            "reader:job+" => {
                READER_PLUS.fetch_add(1, Ordering::SeqCst);
            }
            "reader:job-" => {
                READER_MINUS.fetch_add(1, Ordering::SeqCst);
            }
            "db:confirmations_set" => {
                let o = next_order();
                CONFIRMED.lock().unwrap().push((o, a, b & !0xff, (b & 0xff) as u8));
            }
            _ => {}
        }
        if site == "confirm:update" && HOLD_CONFIRM.load(Ordering::SeqCst) {
            return Action::Yield;
        }
        if site == "sub:history:batch" && HOLD_SUBS.load(Ordering::SeqCst) {
            SUBS_HELD.fetch_add(1, Ordering::SeqCst);
            return Action::Yield;
        }
        if site.starts_with("confirm:") || site.starts_with("cluster:") || site.starts_with("sub:") {
            let cb = HOOK.with(|h| h.borrow_mut().take());
            if let Some(mut cb) = cb {
                cb(site, a, b);
                HOOK.with(|h| {
                    let mut h = h.borrow_mut();
                    if h.is_none() {
                        *h = Some(cb);
                    }
                });
            }
        }
        Action::Continue
    }
    fn mono_nanos(&self) -> Option<u64> {
        self.clocks_on.load(Ordering::Relaxed).then(|| self.mono.load(Ordering::SeqCst))
    }
    fn wall_nanos(&self) -> Option<u64> {
        self.clocks_on.load(Ordering::Relaxed).then(|| self.wall.load(Ordering::SeqCst))
    }
}

static SIM: std::sync::OnceLock<Arc<ClusterSim>> = std::sync::OnceLock::new();

pub fn sim() -> Arc<ClusterSim> {
    SIM.get_or_init(|| {
        let s = Arc::new(ClusterSim { mono: AtomicU64::new(0), wall: AtomicU64::new(WALL_START), clocks_on: AtomicBool::new(false) });
        seglog::verif::install(s.clone());
        s
    })
    .clone()
}

pub fn set_hook(cb: Option<Box<dyn FnMut(&'static str, u64, u64)>>) {
    HOOK.with(|h| *h.borrow_mut() = cb);
}

impl ClusterSim {
    pub fn reset_clock(&self) {
        self.mono.store(0, Ordering::SeqCst);
        self.wall.store(WALL_START, Ordering::SeqCst);
        self.clocks_on.store(true, Ordering::SeqCst);
    }
    pub fn advance(&self, nanos: u64) {
        self.mono.fetch_add(nanos, Ordering::SeqCst);
        self.wall.fetch_add(nanos, Ordering::SeqCst);
    }
}
