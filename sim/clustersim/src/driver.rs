//! The tokio driver of engine C: the top-level future never parks, so tokio's paused clock never
//! auto-advances; simulated time moves only when the scheduler calls `tokio::time::advance`.
//! `quiesce` waits until nothing observable moves any more: store requests answered, reader jobs
//! done, and a number of scheduler turns without a completed reply.

use std::future::Future;
use std::sync::Arc;
use std::sync::atomic::{AtomicU64, Ordering};

use crate::sim;

pub async fn spin<F: Future>(f: F) -> F::Output {
    tokio::pin!(f);
    loop {
        tokio::select! {
            biased;
            r = &mut f => return r,
            _ = tokio::task::yield_now() => {}
        }
    }
}

pub fn reset_counters() {
    sim::reset_activity();
}

pub async fn quiesce(completed: &Arc<AtomicU64>) {
    let mut stable = 0u32;
    let mut last = (completed.load(Ordering::SeqCst), sim::activity());
    let start = std::time::Instant::now();
    loop {
        tokio::task::yield_now().await;
        let act = sim::activity();
        if act.busy() || blocking_pool_busy() {
            stable = 0;
            std::thread::yield_now();
            if start.elapsed().as_secs() > 90 {
                panic!("simulation stuck: store never became idle: {act:?}");
            }
            continue;
        }
        let now = (completed.load(Ordering::SeqCst), act);
        if now == last {
            stable += 1;
        } else {
            stable = 0;
            last = now;
        }
        if stable == 12 || stable == 24 {
            // give tokio's blocking pool (tokio::fs) a moment of real time
            std::thread::sleep(std::time::Duration::from_micros(120));
        }
        if stable >= 36 {
            return;
        }
    }
}

/// tokio's blocking pool (tokio::fs) has work queued or running.
pub fn blocking_pool_busy() -> bool {
    let m = tokio::runtime::Handle::current().metrics();
    m.blocking_queue_depth() > 0 || m.num_blocking_threads() > m.num_idle_blocking_threads()
}
