//! Generic delta-debugging helpers used to minimise a failing plan.

use serde_json::Value;

/// ddmin over a list: returns a (locally) minimal sub-list for which `fails` still holds.
/// `budget` bounds the number of `fails` calls.
pub fn ddmin<T: Clone>(items: &[T], budget: &mut u32, mut fails: impl FnMut(&[T]) -> bool) -> Vec<T> {
    let mut cur: Vec<T> = items.to_vec();
    let mut n = 2usize;
    while cur.len() >= 2 && *budget > 0 {
        let chunk = cur.len().div_ceil(n);
        let mut reduced = false;
        // try removing each chunk (complement test)
        let mut start = 0;
        while start < cur.len() && *budget > 0 {
            let end = (start + chunk).min(cur.len());
            let mut cand = Vec::with_capacity(cur.len() - (end - start));
            cand.extend_from_slice(&cur[..start]);
            cand.extend_from_slice(&cur[end..]);
            *budget -= 1;
            if !cand.is_empty() && fails(&cand) {
                cur = cand;
                n = n.saturating_sub(1).max(2);
                reduced = true;
                break;
            }
            start = end;
        }
        if !reduced {
            if n >= cur.len() {
                break;
            }
            n = (n * 2).min(cur.len());
        }
    }
    // final pass: try dropping single elements
    let mut i = 0;
    while i < cur.len() && cur.len() > 1 && *budget > 0 {
        let mut cand = cur.clone();
        cand.remove(i);
        *budget -= 1;
        if fails(&cand) {
            cur = cand;
        } else {
            i += 1;
        }
    }
    cur
}

/// Shrinks the JSON array at `plan[key]` with ddmin while `fails(plan)` holds.
pub fn shrink_array_field(
    plan: &Value,
    key: &str,
    budget: &mut u32,
    mut fails: impl FnMut(&Value) -> bool,
) -> Value {
    let Some(arr) = plan.get(key).and_then(|v| v.as_array()) else {
        return plan.clone();
    };
    if arr.len() < 2 {
        return plan.clone();
    }
    let base = plan.clone();
    let min = ddmin(arr, budget, |cand| {
        let mut p = base.clone();
        p[key] = Value::Array(cand.to_vec());
        fails(&p)
    });
    let mut out = plan.clone();
    out[key] = Value::Array(min);
    out
}
