//! simcore: seeded PRNG, run/aggregate bookkeeping, worker orchestration, evidence,
//! known-findings matching, replay files and a generic ddmin shrinker.
//!
//! Nothing in here draws randomness or reads a clock on a logging path; wall-clock time is
//! only read by the master process for `wall_s` and by the per-batch safety cap.

pub mod rng;
pub mod runner;
pub mod shrink;

use std::collections::{BTreeMap, BTreeSet};

use serde::{Deserialize, Serialize};
use serde_json::Value;

pub use rng::Rng;

/// FNV-1a 64-bit, used for stable signatures (never `std::hash`, which is randomly keyed).
pub fn fnv(bytes: &[u8]) -> u64 {
    let mut h: u64 = 0xcbf29ce484222325;
    for &b in bytes {
        h ^= b as u64;
        h = h.wrapping_mul(0x100000001b3);
    }
    h
}

/// Hash-chain helper: h' = fnv(h || item).
#[derive(Clone, Copy, Debug, Default, Serialize, Deserialize, PartialEq, Eq)]
pub struct Chain(pub u64);

impl Chain {
    pub fn new() -> Self {
        Chain(0xcbf29ce484222325)
    }
    pub fn push(&mut self, bytes: &[u8]) {
        let mut h = self.0;
        for &b in bytes {
            h ^= b as u64;
            h = h.wrapping_mul(0x100000001b3);
        }
        // separator so that ("ab","c") != ("a","bc")
        h ^= 0xff;
        h = h.wrapping_mul(0x100000001b3);
        self.0 = h;
    }
    pub fn push_str(&mut self, s: &str) {
        self.push(s.as_bytes())
    }
    pub fn push_u64(&mut self, v: u64) {
        self.push(&v.to_le_bytes())
    }
}

/// A violation found by one run, before known-findings matching.
#[derive(Clone, Debug, Serialize, Deserialize)]
pub struct Violation {
    /// `<property>/<oracle clause>/<site>/<shape>` — stable across seeds for the same defect.
    pub signature: String,
    /// Human-readable description of what failed.
    pub detail: String,
}

/// What a single simulated run reports back.
#[derive(Clone, Debug, Default)]
pub struct RunOutcome {
    /// Number of oracle evaluations / fault trials inside the run (≥ 1).
    pub evaluations: u64,
    /// Signature of the run if it is non-trivial by the property's rule.
    pub nontrivial: Option<u64>,
    /// Additional distinct non-trivial case signatures (for enumeration engines).
    pub nontrivial_cases: Vec<u64>,
    /// Hash of the schedule picks (distinct interleavings measure).
    pub schedule_hash: u64,
    /// Hash of the final (model state, layout) (distinct states measure).
    pub state_hash: u64,
    /// Hash chain of everything observable, for determinism re-checks.
    pub event_hash: u64,
    /// fault kind → times it took effect.
    pub faults: BTreeMap<String, u64>,
    /// rare-condition probes → hits.
    pub probes: BTreeMap<String, u64>,
    /// Simulated nanoseconds covered.
    pub sim_nanos: u64,
    /// Scheduler steps executed.
    pub steps: u64,
    /// Short-form sample of the run (config, ops, faults, first picks).
    pub sample: Option<Value>,
    pub violations: Vec<Violation>,
    /// True when the per-run enumeration was complete.
    pub exhaustive: Option<bool>,
}

/// Aggregate over many runs; mergeable across worker processes.
#[derive(Clone, Debug, Default, Serialize, Deserialize)]
pub struct Aggregate {
    pub runs: u64,
    pub evaluations: u64,
    pub nontrivial: BTreeSet<u64>,
    pub schedules: BTreeSet<u64>,
    pub states: BTreeSet<u64>,
    pub faults: BTreeMap<String, u64>,
    pub probes: BTreeMap<String, u64>,
    pub sim_nanos: u64,
    pub steps: u64,
    pub samples: Vec<Value>,
    pub seeds: Vec<u64>,
    pub determinism_runs: u64,
    pub determinism_mismatches: u64,
    pub exhaustive_runs: u64,
    pub non_exhaustive_runs: u64,
    pub violations: Vec<ReportedViolation>,
    pub known_hits: BTreeMap<String, u64>,
    pub harness_errors: Vec<String>,
    /// things worth a line on stderr that do not decide the exit code
    #[serde(default)]
    pub notes: Vec<String>,
}

#[derive(Clone, Debug, Serialize, Deserialize)]
pub struct ReportedViolation {
    pub signature: String,
    pub detail: String,
    pub seed: u64,
    pub replay: String,
}

const SET_CAP: usize = 400_000;

impl Aggregate {
    pub fn add_run(&mut self, seed: u64, out: &RunOutcome) {
        self.runs += 1;
        self.evaluations += out.evaluations.max(1);
        if let Some(sig) = out.nontrivial {
            if self.nontrivial.len() < SET_CAP {
                self.nontrivial.insert(sig);
            }
        }
        for sig in &out.nontrivial_cases {
            if self.nontrivial.len() < SET_CAP {
                self.nontrivial.insert(*sig);
            }
        }
        if self.schedules.len() < SET_CAP {
            self.schedules.insert(out.schedule_hash);
        }
        if self.states.len() < SET_CAP {
            self.states.insert(out.state_hash);
        }
        for (k, v) in &out.faults {
            *self.faults.entry(k.clone()).or_default() += v;
        }
        for (k, v) in &out.probes {
            *self.probes.entry(k.clone()).or_default() += v;
        }
        self.sim_nanos += out.sim_nanos;
        self.steps += out.steps;
        if self.seeds.len() < 8 {
            self.seeds.push(seed);
        }
        if let Some(s) = &out.sample {
            if self.samples.len() < 3 {
                self.samples.push(s.clone());
            }
        }
        match out.exhaustive {
            Some(true) => self.exhaustive_runs += 1,
            Some(false) => self.non_exhaustive_runs += 1,
            None => {}
        }
    }

    pub fn merge(&mut self, other: Aggregate) {
        self.runs += other.runs;
        self.evaluations += other.evaluations;
        for s in other.nontrivial {
            if self.nontrivial.len() < SET_CAP * 4 {
                self.nontrivial.insert(s);
            }
        }
        for s in other.schedules {
            if self.schedules.len() < SET_CAP * 4 {
                self.schedules.insert(s);
            }
        }
        for s in other.states {
            if self.states.len() < SET_CAP * 4 {
                self.states.insert(s);
            }
        }
        for (k, v) in other.faults {
            *self.faults.entry(k).or_default() += v;
        }
        for (k, v) in other.probes {
            *self.probes.entry(k).or_default() += v;
        }
        self.sim_nanos += other.sim_nanos;
        self.steps += other.steps;
        for s in other.samples {
            if self.samples.len() < 3 {
                self.samples.push(s);
            }
        }
        for s in other.seeds {
            if self.seeds.len() < 16 {
                self.seeds.push(s);
            }
        }
        self.determinism_runs += other.determinism_runs;
        self.determinism_mismatches += other.determinism_mismatches;
        self.exhaustive_runs += other.exhaustive_runs;
        self.non_exhaustive_runs += other.non_exhaustive_runs;
        self.violations.extend(other.violations);
        for (k, v) in other.known_hits {
            *self.known_hits.entry(k).or_default() += v;
        }
        self.harness_errors.extend(other.harness_errors);
        self.notes.extend(other.notes);
    }
}

/// One line of /verif/known_findings.jsonl.
#[derive(Clone, Debug, Serialize, Deserialize)]
pub struct KnownFinding {
    pub status: String, // "known" | "fixed"
    pub property: String,
    /// Exact signature, or a prefix ending in '*'.
    pub signature: String,
    pub what: String,
    #[serde(default)]
    pub commit: Option<String>,
}

pub fn load_known_findings(path: &std::path::Path) -> Vec<KnownFinding> {
    let Ok(text) = std::fs::read_to_string(path) else {
        return Vec::new();
    };
    text.lines()
        .filter(|l| !l.trim().is_empty() && !l.trim_start().starts_with('#'))
        .filter_map(|l| serde_json::from_str::<KnownFinding>(l).ok())
        .collect()
}

/// Returns the `known` entry that lists this violation, if any. `fixed` entries suppress nothing.
pub fn match_known<'a>(
    known: &'a [KnownFinding],
    property: &str,
    signature: &str,
) -> Option<&'a KnownFinding> {
    known.iter().find(|k| {
        k.status == "known"
            && k.property == property
            && (k.signature == signature
                || (k.signature.ends_with('*')
                    && signature.starts_with(&k.signature[..k.signature.len() - 1])))
    })
}

/// Static description of a property check, supplied by the engine.
#[derive(Clone, Debug)]
pub struct PropertyInfo {
    pub id: &'static str,
    pub level: &'static str, // "exploration" | "fault_enumeration"
    pub rule: &'static str,
    pub quick_runs: u64,
    pub thorough_runs: u64,
    pub real_components: &'static [&'static str],
    pub stub_components: &'static [&'static str],
    pub assumptions: &'static [&'static str],
}
