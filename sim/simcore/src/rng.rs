//! Deterministic PRNG: SplitMix64 for seeding, xoshiro256** for the stream.
//! One `Rng` per run, created from the run seed; every choice of the run comes from it.

#[derive(Clone, Debug)]
pub struct Rng {
    s: [u64; 4],
    pub draws: u64,
}

pub fn splitmix64(state: &mut u64) -> u64 {
    *state = state.wrapping_add(0x9E3779B97F4A7C15);
    let mut z = *state;
    z = (z ^ (z >> 30)).wrapping_mul(0xBF58476D1CE4E5B9);
    z = (z ^ (z >> 27)).wrapping_mul(0x94D049BB133111EB);
    z ^ (z >> 31)
}

/// Mixes the batch seed, a property tag and a run index into a run seed.
pub fn mix(seed: u64, tag: &str, index: u64) -> u64 {
    let mut st = seed ^ crate::fnv(tag.as_bytes()).rotate_left(17) ^ index.wrapping_mul(0xD6E8FEB86659FD93);
    let a = splitmix64(&mut st);
    let b = splitmix64(&mut st);
    a ^ b.rotate_left(31)
}

impl Rng {
    pub fn new(seed: u64) -> Self {
        let mut st = seed;
        let s = [
            splitmix64(&mut st),
            splitmix64(&mut st),
            splitmix64(&mut st),
            splitmix64(&mut st),
        ];
        Rng { s, draws: 0 }
    }

    /// Independent child stream (does count as one draw of the parent).
    pub fn fork(&mut self) -> Rng {
        Rng::new(self.next_u64())
    }

    pub fn next_u64(&mut self) -> u64 {
        self.draws += 1;
        let result = self.s[1].wrapping_mul(5).rotate_left(7).wrapping_mul(9);
        let t = self.s[1] << 17;
        self.s[2] ^= self.s[0];
        self.s[3] ^= self.s[1];
        self.s[1] ^= self.s[2];
        self.s[0] ^= self.s[3];
        self.s[2] ^= t;
        self.s[3] = self.s[3].rotate_left(45);
        result
    }

    /// Uniform in [0, n). n must be > 0.
    pub fn below(&mut self, n: u64) -> u64 {
        debug_assert!(n > 0);
        // multiply-shift; bias is negligible for simulation purposes and deterministic
        ((self.next_u64() as u128 * n as u128) >> 64) as u64
    }

    pub fn range(&mut self, lo: u64, hi_inclusive: u64) -> u64 {
        lo + self.below(hi_inclusive - lo + 1)
    }

    pub fn usize_below(&mut self, n: usize) -> usize {
        self.below(n as u64) as usize
    }

    /// True with probability num/den.
    pub fn chance(&mut self, num: u64, den: u64) -> bool {
        self.below(den) < num
    }

    pub fn pick<'a, T>(&mut self, items: &'a [T]) -> &'a T {
        &items[self.usize_below(items.len())]
    }

    /// Picks an index according to integer weights.
    pub fn weighted(&mut self, weights: &[u64]) -> usize {
        let total: u64 = weights.iter().sum();
        debug_assert!(total > 0);
        let mut x = self.below(total);
        for (i, w) in weights.iter().enumerate() {
            if x < *w {
                return i;
            }
            x -= *w;
        }
        weights.len() - 1
    }

    pub fn fill(&mut self, buf: &mut [u8]) {
        for chunk in buf.chunks_mut(8) {
            let v = self.next_u64().to_le_bytes();
            chunk.copy_from_slice(&v[..chunk.len()]);
        }
    }

    pub fn bytes(&mut self, len: usize) -> Vec<u8> {
        let mut v = vec![0u8; len];
        self.fill(&mut v);
        v
    }

    pub fn shuffle<T>(&mut self, items: &mut [T]) {
        for i in (1..items.len()).rev() {
            let j = self.usize_below(i + 1);
            items.swap(i, j);
        }
    }
}
