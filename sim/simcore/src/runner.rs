//! Master/worker orchestration shared by every engine binary.
//!
//! `<engine> <PROP> [quick|thorough] [--runs N] [--workers N]` — master: spawns worker
//! processes (each owning the run indices `i ≡ w mod n`), merges their aggregates, writes
//! evidence, prints KNOWN-FINDING / VIOLATION lines, sets the exit code.
//! `<engine> <PROP> --replay <file>` — re-executes one recorded plan in this process.
//! Exit codes: 0 nothing unlisted found; 1 violation; 2 harness error.

use std::collections::BTreeSet;
use std::io::Write;
use std::path::{Path, PathBuf};
use std::process::{Command, Stdio};
use std::time::Instant;

use serde_json::{Value, json};

use crate::{
    Aggregate, KnownFinding, PropertyInfo, ReportedViolation, RunOutcome, load_known_findings,
    match_known, rng,
};

#[derive(Clone, Copy, Debug, PartialEq, Eq)]
pub enum Tier {
    Quick,
    Thorough,
}

impl Tier {
    pub fn as_str(&self) -> &'static str {
        match self {
            Tier::Quick => "quick",
            Tier::Thorough => "thorough",
        }
    }
}

pub trait Engine {
    fn name() -> &'static str;
    fn properties() -> Vec<PropertyInfo>;
    /// The replayable plan of a run: a pure function of (property, tier, run seed).
    fn plan(prop: &str, tier: Tier, run_seed: u64) -> Value;
    /// Executes a plan. Must be a pure function of the plan and the code under test.
    fn execute(prop: &str, plan: &Value) -> RunOutcome;
    /// Minimises a failing plan; `fails(plan)` re-executes and tells whether the same
    /// violation signature persists. Default: ddmin over `plan["ops"]`.
    fn shrink(_prop: &str, plan: &Value, budget: &mut u32, fails: &mut dyn FnMut(&Value) -> bool) -> Value {
        crate::shrink::shrink_array_field(plan, "ops", budget, |p| fails(p))
    }
    /// Optional per-process initialisation (e.g. installing the hook simulator).
    fn init_process() {}
}

pub fn verif_root() -> PathBuf {
    std::env::var_os("VERIF_ROOT").map(PathBuf::from).unwrap_or_else(|| PathBuf::from("/verif"))
}

fn env_u64(name: &str) -> Option<u64> {
    std::env::var(name).ok().and_then(|v| v.trim().parse().ok())
}

struct Args {
    prop: String,
    tier: Tier,
    replay: Option<PathBuf>,
    runs: Option<u64>,
    workers: Option<usize>,
    worker: Option<(u64, u64)>,
    one: Option<u64>,
}

fn parse_args() -> Args {
    let mut it = std::env::args().skip(1);
    let mut a = Args {
        prop: String::new(),
        tier: match std::env::var("VERIF_TIER").as_deref() {
            Ok("thorough") => Tier::Thorough,
            _ => Tier::Quick,
        },
        replay: None,
        runs: env_u64("VERIF_RUNS"),
        workers: env_u64("VERIF_WORKERS").map(|v| v as usize),
        worker: None,
        one: None,
    };
    while let Some(arg) = it.next() {
        match arg.as_str() {
            "quick" => a.tier = Tier::Quick,
            "thorough" => a.tier = Tier::Thorough,
            "--replay" => a.replay = it.next().map(PathBuf::from),
            "--runs" => a.runs = it.next().and_then(|v| v.parse().ok()),
            "--workers" => a.workers = it.next().and_then(|v| v.parse().ok()),
            "--one" => a.one = it.next().and_then(|v| v.parse().ok()),
            "--worker" => {
                let i = it.next().and_then(|v| v.parse().ok()).unwrap_or(0);
                let n = it.next().and_then(|v| v.parse().ok()).unwrap_or(1);
                a.worker = Some((i, n));
            }
            other if a.prop.is_empty() => a.prop = other.to_string(),
            other => {
                eprintln!("unknown argument {other}");
                std::process::exit(2);
            }
        }
    }
    a
}

pub fn main<E: Engine>() -> ! {
    let args = parse_args();
    let props = E::properties();
    let Some(info) = props.iter().find(|p| p.id == args.prop) else {
        eprintln!(
            "{}: unknown property {:?}; serves {:?}",
            E::name(),
            args.prop,
            props.iter().map(|p| p.id).collect::<Vec<_>>()
        );
        std::process::exit(2);
    };
    let seed = env_u64("VERIF_SEED").unwrap_or(1);
    let code = if let Some(path) = &args.replay {
        E::init_process();
        replay::<E>(info, path)
    } else if let Some(idx) = args.one {
        E::init_process();
        run_one_verbose::<E>(info, args.tier, seed, idx)
    } else if let Some((i, n)) = args.worker {
        E::init_process();
        worker::<E>(info, args.tier, seed, i, n, args.runs)
    } else {
        master::<E>(info, args.tier, seed, args.runs, args.workers)
    };
    std::process::exit(code)
}

fn total_runs(info: &PropertyInfo, tier: Tier, runs: Option<u64>) -> u64 {
    runs.unwrap_or(match tier {
        Tier::Quick => info.quick_runs,
        Tier::Thorough => info.thorough_runs,
    })
}

fn run_one_verbose<E: Engine>(info: &PropertyInfo, tier: Tier, seed: u64, idx: u64) -> i32 {
    let run_seed = rng::mix(seed, info.id, idx);
    let plan = E::plan(info.id, tier, run_seed);
    println!("plan: {}", serde_json::to_string(&plan).unwrap());
    let out = E::execute(info.id, &plan);
    println!(
        "evaluations={} nontrivial={:?} steps={} sim_ns={} event_hash={:016x}",
        out.evaluations, out.nontrivial, out.steps, out.sim_nanos, out.event_hash
    );
    println!("faults={:?}\nprobes={:?}", out.faults, out.probes);
    for v in &out.violations {
        println!("violation {} :: {}", v.signature, v.detail);
    }
    if out.violations.is_empty() { 0 } else { 1 }
}

fn worker<E: Engine>(
    info: &PropertyInfo,
    tier: Tier,
    seed: u64,
    index: u64,
    of: u64,
    runs: Option<u64>,
) -> i32 {
    let total = total_runs(info, tier, runs);
    let cap_s = env_u64("VERIF_TIME_CAP_S").unwrap_or(match tier {
        Tier::Quick => 600,
        Tier::Thorough => 7200,
    });
    let recheck_every = env_u64("VERIF_RECHECK_EVERY").unwrap_or(50);
    let started = Instant::now();
    let known = load_known_findings(&verif_root().join("known_findings.jsonl"));
    let mut agg = Aggregate::default();
    let mut reported: BTreeSet<String> = BTreeSet::new();
    let mut idx = index;
    while idx < total {
        if started.elapsed().as_secs() > cap_s {
            *agg.probes.entry("budget_truncated_by_time_cap".into()).or_default() += 1;
            break;
        }
        let run_seed = rng::mix(seed, info.id, idx);
        let plan = E::plan(info.id, tier, run_seed);
        let out = E::execute(info.id, &plan);
        if recheck_every > 0 && idx % recheck_every == 7 % recheck_every {
            let again = E::execute(info.id, &plan);
            agg.determinism_runs += 1;
            if again.event_hash != out.event_hash {
                agg.determinism_mismatches += 1;
                agg.notes.push(format!(
                    "nondeterminism: run index {idx} seed {run_seed} event hash {:016x} vs {:016x}",
                    out.event_hash, again.event_hash
                ));
            }
        }
        agg.add_run(run_seed, &out);
        for v in &out.violations {
            if let Some(k) = match_known(&known, info.id, &v.signature) {
                *agg.known_hits.entry(k.signature.clone()).or_default() += 1;
                continue;
            }
            if !reported.insert(v.signature.clone()) {
                continue;
            }
            report_violation::<E>(info, &plan, run_seed, v, &mut agg);
        }
        idx += of;
    }
    let line = serde_json::to_string(&agg).unwrap();
    let stdout = std::io::stdout();
    let mut lock = stdout.lock();
    let _ = writeln!(lock, "AGG {line}");
    0
}

fn has_signature(out: &RunOutcome, sig: &str) -> bool {
    out.violations.iter().any(|v| v.signature == sig)
}

fn report_violation<E: Engine>(
    info: &PropertyInfo,
    plan: &Value,
    run_seed: u64,
    v: &crate::Violation,
    agg: &mut Aggregate,
) {
    // Confirm reproducibility from the plan before anything is reported.
    // (engines with real OS threads can, rarely, differ between two executions of one plan: a
    // candidate that does not come back in five further executions cannot be handed out as a
    // replayable violation; it is recorded in the evidence and on stderr, not reported)
    let mut reproduced = false;
    for _ in 0..5 {
        let again = E::execute(info.id, plan);
        if has_signature(&again, &v.signature) {
            reproduced = true;
            break;
        }
    }
    if !reproduced {
        agg.notes.push(format!(
            "unreproducible candidate {} (seed {run_seed}): {}",
            v.signature, v.detail
        ));
        *agg.probes.entry("unreproducible_candidates".into()).or_default() += 1;
        return;
    }
    let started = Instant::now();
    let mut budget: u32 = env_u64("VERIF_SHRINK_BUDGET").unwrap_or(200) as u32;
    let sig = v.signature.clone();
    let mut fails = |p: &Value| -> bool {
        if started.elapsed().as_secs() > 60 {
            return false;
        }
        has_signature(&E::execute(info.id, p), &sig)
    };
    let min_plan = E::shrink(info.id, plan, &mut budget, &mut fails);
    let final_out = E::execute(info.id, &min_plan);
    let (min_plan, detail) = match final_out.violations.iter().find(|x| x.signature == v.signature) {
        Some(x) => (min_plan, x.detail.clone()),
        None => (plan.clone(), v.detail.clone()),
    };
    let hash = crate::fnv(v.signature.as_bytes());
    let dir = verif_root().join("replays");
    let _ = std::fs::create_dir_all(&dir);
    let path = dir.join(format!("{}-{:016x}.json", info.id, hash));
    let doc = json!({
        "engine": E::name(),
        "property": info.id,
        "seed": run_seed,
        "signature": v.signature,
        "detail": detail,
        "plan": min_plan,
        "original_plan_ops": plan.get("ops").and_then(|o| o.as_array()).map(|a| a.len()),
    });
    let _ = std::fs::write(&path, serde_json::to_string_pretty(&doc).unwrap());
    agg.violations.push(ReportedViolation {
        signature: v.signature.clone(),
        detail,
        seed: run_seed,
        replay: path.display().to_string(),
    });
}

fn replay<E: Engine>(info: &PropertyInfo, path: &Path) -> i32 {
    let text = match std::fs::read_to_string(path) {
        Ok(t) => t,
        Err(e) => {
            eprintln!("cannot read replay file {}: {e}", path.display());
            return 2;
        }
    };
    let doc: Value = match serde_json::from_str(&text) {
        Ok(v) => v,
        Err(e) => {
            eprintln!("bad replay file: {e}");
            return 2;
        }
    };
    let sig = doc["signature"].as_str().unwrap_or("").to_string();
    let out = E::execute(info.id, &doc["plan"]);
    for v in &out.violations {
        println!("violation {} :: {}", v.signature, v.detail);
    }
    if has_signature(&out, &sig) {
        println!("VIOLATION property={} replay={}", info.id, path.display());
        1
    } else {
        println!("replay did not reproduce signature {sig}");
        0
    }
}

fn master<E: Engine>(
    info: &PropertyInfo,
    tier: Tier,
    seed: u64,
    runs: Option<u64>,
    workers: Option<usize>,
) -> i32 {
    let started = Instant::now();
    let total = total_runs(info, tier, runs);
    let n = workers
        .unwrap_or_else(|| std::thread::available_parallelism().map(|n| n.get()).unwrap_or(4).min(16))
        .max(1)
        .min(total.max(1) as usize);
    println!("VERIF_SEED={seed} property={} tier={} runs={total} workers={n}", info.id, tier.as_str());
    let exe = std::env::current_exe().expect("current_exe");
    let mut children = Vec::new();
    for i in 0..n {
        let mut cmd = Command::new(&exe);
        cmd.arg(info.id)
            .arg(tier.as_str())
            .arg("--worker")
            .arg(i.to_string())
            .arg(n.to_string())
            .arg("--runs")
            .arg(total.to_string())
            .stdout(Stdio::piped())
            .stderr(Stdio::inherit());
        children.push(cmd.spawn().expect("spawn worker"));
    }
    let mut agg = Aggregate::default();
    let mut harness_error = false;
    for (i, child) in children.into_iter().enumerate() {
        let out = child.wait_with_output().expect("wait worker");
        let text = String::from_utf8_lossy(&out.stdout);
        let mut got = false;
        for line in text.lines() {
            if let Some(rest) = line.strip_prefix("AGG ") {
                match serde_json::from_str::<Aggregate>(rest) {
                    Ok(a) => {
                        agg.merge(a);
                        got = true;
                    }
                    Err(e) => eprintln!("worker {i}: bad aggregate: {e}"),
                }
            }
        }
        if !got || !out.status.success() {
            eprintln!("worker {i} failed: status {:?}", out.status);
            agg.harness_errors.push(format!("worker {i} exited with {:?} without an aggregate", out.status));
            harness_error = true;
        }
    }
    let wall = started.elapsed().as_secs_f64();
    let known = load_known_findings(&verif_root().join("known_findings.jsonl"));

    // de-duplicate violations by signature
    let mut seen = BTreeSet::new();
    let mut unique: Vec<ReportedViolation> = Vec::new();
    for v in &agg.violations {
        if seen.insert(v.signature.clone()) {
            unique.push(v.clone());
        }
    }
    write_evidence(info, tier, seed, &agg, &unique, wall, n);

    for (sig, hits) in &agg.known_hits {
        let what = known
            .iter()
            .find(|k: &&KnownFinding| &k.signature == sig && k.property == info.id)
            .map(|k| k.what.clone())
            .unwrap_or_default();
        println!("KNOWN-FINDING: property={} {} [signature {} hit {} times]", info.id, what, sig, hits);
    }
    for v in &unique {
        println!("  {} :: {}", v.signature, v.detail);
        println!("VIOLATION property={} replay={}", info.id, v.replay);
    }
    for e in &agg.harness_errors {
        eprintln!("HARNESS-ERROR: {e}");
        harness_error = true;
    }
    for e in &agg.notes {
        eprintln!("NOTE: {e}");
    }
    // an occasional mismatch is a statistic (evidence: determinism_recheck); a systematic one means
    // a seam is missing and nothing this run reports can be replayed
    if agg.determinism_runs >= 10 && agg.determinism_mismatches * 5 > agg.determinism_runs {
        eprintln!("HARNESS-ERROR: {} of {} determinism re-checks differed", agg.determinism_mismatches, agg.determinism_runs);
        harness_error = true;
    }
    for (probe, hits) in &agg.probes {
        if *hits == 0 {
            eprintln!("warning: probe {probe} stuck at zero");
        }
    }
    println!(
        "{}: runs={} evaluations={} distinct_nontrivial={} schedules={} states={} known_hits={} violations={} wall={:.1}s",
        info.id,
        agg.runs,
        agg.evaluations,
        agg.nontrivial.len(),
        agg.schedules.len(),
        agg.states.len(),
        agg.known_hits.values().sum::<u64>(),
        unique.len(),
        wall
    );
    if !unique.is_empty() {
        1
    } else if harness_error {
        2
    } else {
        0
    }
}

fn write_evidence(
    info: &PropertyInfo,
    tier: Tier,
    seed: u64,
    agg: &Aggregate,
    unique: &[ReportedViolation],
    wall: f64,
    workers: usize,
) {
    let runs_per_hour = if wall > 0.0 { agg.runs as f64 / wall * 3600.0 } else { 0.0 };
    let mut coverage = json!({
        "evaluations": agg.evaluations,
        "distinct_nontrivial": agg.nontrivial.len(),
        "rule": info.rule,
        "samples": agg.samples,
        "simulated_runs": agg.runs,
        "runs_per_hour": runs_per_hour.round(),
        "seeds_first_runs": agg.seeds,
        "seed_derivation": "run seed = mix(VERIF_SEED, property id, run index); see sim/simcore/src/rng.rs",
        "simulated_seconds": agg.sim_nanos as f64 / 1e9,
        "scheduler_steps": agg.steps,
        "faults_fired": agg.faults,
        "probes": agg.probes,
        "distinct_schedules": agg.schedules.len(),
        "distinct_states": agg.states.len(),
        "determinism_recheck": {"runs": agg.determinism_runs, "mismatches": agg.determinism_mismatches},
        "real_components": info.real_components,
        "stub_components": info.stub_components,
        "worker_processes": workers,
        "known_findings_hit": agg.known_hits,
        "unlisted_violation_signatures": unique.iter().map(|v| v.signature.clone()).collect::<Vec<_>>(),
    });
    if agg.exhaustive_runs + agg.non_exhaustive_runs > 0 {
        coverage["per_run_enumeration"] = json!({
            "complete": agg.exhaustive_runs,
            "sampled": agg.non_exhaustive_runs,
            "note": "exhaustive only per sampled history, never for the property"
        });
    }
    let doc = json!({
        "property_id": info.id,
        "tier": tier.as_str(),
        "seed": seed,
        "level": info.level,
        "coverage": coverage,
        "assumptions": info.assumptions,
        "wall_s": (wall * 10.0).round() / 10.0,
        "violations": unique.len(),
    });
    let dir = verif_root().join("evidence");
    let _ = std::fs::create_dir_all(&dir);
    let path = dir.join(format!("{}.json", info.id));
    if let Err(e) = std::fs::write(&path, serde_json::to_string_pretty(&doc).unwrap()) {
        eprintln!("cannot write evidence {}: {e}", path.display());
    }
}
