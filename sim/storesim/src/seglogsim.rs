//! Engine B — seglogsim: the real `seglog` Writer/Reader/Iter/parse_record on a real file,
//! driven operation by operation from a plan; stored-byte faults (C17) and long-lived
//! readers interleaved with writer operations (C18).

use std::cell::RefCell;
use std::collections::BTreeMap;
use std::os::unix::fs::FileExt;
use std::path::Path;

use seglog::parse::parse_record;
use seglog::read::{ReadError, ReadHint, Reader};
use seglog::write::Writer;
use serde_json::{Value, json};
use simcore::runner::Tier;
use simcore::{Chain, Rng, RunOutcome, Violation, fnv};

use crate::util::{Scratch, catch, gen_bytes, panic_site};

// ---------------------------------------------------------------------------------------
// shared model
// ---------------------------------------------------------------------------------------

#[derive(Clone, Debug)]
struct MRec {
    offset: u64,
    len: usize, // stored length incl. 8-byte head and header
    header: Vec<u8>,
    data: Vec<u8>,
    compressed: bool,
    /// previous header values still acceptable for readers with a stale read-ahead buffer
    old_headers: Vec<Vec<u8>>,
}

fn hdr<const H: usize>(seed: u64) -> [u8; H] {
    let mut h = [0u8; H];
    Rng::new(seed ^ 0x4844).fill(&mut h);
    h
}

fn err_class(e: &ReadError) -> &'static str {
    match e {
        ReadError::Crc32cMismatch { .. } => "crc",
        ReadError::OutOfBounds { .. } => "oob",
        ReadError::TruncationMarker { .. } => "marker",
        ReadError::ReplaceLengthMismatch { .. } => "replace-len",
        ReadError::Io(_) => "io",
    }
}

const BOUNDARY_LENS: &[usize] = &[
    0, 1, 3, 4, 7, 8, 9, 15, 16, 17, 100, 119, 120, 126, 127, 128, 129, 130, 255, 256, 1000, 2031, 2032, 2039,
    2040, 2041, 2047, 2048, 2049, 2055, 2056, 4079, 4080, 4087, 4088, 4089, 4095, 4096, 4097, 4103, 4104,
    16383, 16384, 16385, 65527, 65535, 65536, 65537, 71680,
];

fn gen_len(rng: &mut Rng, small_bias: bool) -> usize {
    match rng.below(if small_bias { 14 } else { 10 }) {
        0..=3 => *rng.pick(BOUNDARY_LENS),
        4..=5 => rng.below(300) as usize,
        6 => rng.below(5000) as usize,
        7 => 2000 + rng.below(200) as usize,
        8 => 4000 + rng.below(200) as usize,
        9 => rng.below(20000) as usize,
        _ => rng.below(200) as usize,
    }
}

// ---------------------------------------------------------------------------------------
// C17
// ---------------------------------------------------------------------------------------

pub fn plan_c17(tier: Tier, seed: u64) -> Value {
    let mut rng = Rng::new(seed);
    let h = *rng.pick(&[0u64, 1, 1, 8, 16]);
    let compress = *rng.pick(&["off", "on", "on", "toggle"]);
    let many = rng.chance(1, 4);
    let nrec = 1 + rng.below(if many { 40 } else { 8 });
    let mut records = Vec::new();
    let mut total = 0usize;
    for _ in 0..nrec {
        let mut len = gen_len(&mut rng, true);
        if total + len > 600_000 {
            len = rng.below(200) as usize;
        }
        total += len + 64;
        records.push(json!({"len": len, "kind": rng.below(3), "seed": rng.next_u64() >> 16}));
    }
    let start = *rng.pick(&[0u64, 0, 64, 46]);
    let size = (total as u64 + start + 4096 + rng.below(70_000)).max(1024);
    // how many fault trials per target record
    let (bit_cap, burst_cap, trunc_cap, targets) = match tier {
        Tier::Quick => (1024usize, 96usize, 160usize, 2usize),
        Tier::Thorough => (8192, 512, 1024, 4),
    };
    json!({
        "h": h, "compress": compress, "start": start, "size": size, "records": records,
        "targets": targets, "bit_cap_bytes": bit_cap, "burst_positions": burst_cap, "trunc_cap": trunc_cap,
        "fault_seed": rng.next_u64() >> 16,
    })
}

pub fn exec_c17(plan: &Value) -> RunOutcome {
    set_engine_b(true);
    let out = exec_c17_inner(plan);
    set_engine_b(false);
    out
}

fn exec_c17_inner(plan: &Value) -> RunOutcome {
    match plan["h"].as_u64().unwrap_or(0) {
        0 => c17::<0>(plan),
        1 => c17::<1>(plan),
        8 => c17::<8>(plan),
        _ => c17::<16>(plan),
    }
}

struct C17Ctx<'a, const H: usize> {
    path: &'a Path,
    size: usize,
    start: u64,
    recs: Vec<MRec>,
    /// pristine bytes of the whole file
    bytes: Vec<u8>,
    data_end: u64,
    out: RunOutcome,
    chain: Chain,
    sigs: BTreeMap<String, String>,
    cases: std::collections::BTreeSet<u64>,
    trials: u64,
}

fn region_of<const H: usize>(rel_bit: usize) -> &'static str {
    let byte = rel_bit / 8;
    if byte < 4 {
        if rel_bit == 31 { "compress-flag" } else { "len" }
    } else if byte < 8 {
        "crc"
    } else if byte < 8 + H {
        "header"
    } else {
        "data"
    }
}

impl<const H: usize> C17Ctx<'_, H> {
    fn violation(&mut self, clause: &str, path: &str, class: &str, detail: String) {
        let sig = format!("C17/{clause}/{path}/{class}/H{H}");
        self.sigs.entry(sig).or_insert(detail);
    }

    fn check_eq(&self, r: &MRec, header: &[u8], data: &[u8], offset: u64, len: usize) -> bool {
        header == &r.header[..] && data == &r.data[..] && offset == r.offset && len == r.len
    }

    /// Fault-free round trip through every read path, fresh and aged readers.
    fn fault_free(&mut self) {
        let recs = self.recs.clone();
        let mut aged = Reader::<H>::open(self.path, None).expect("open reader");
        // age the reader: read everything sequentially first, then random in reverse
        for pass in 0..2 {
            let order: Vec<usize> = if pass == 0 { (0..recs.len()).collect() } else { (0..recs.len()).rev().collect() };
            for i in order {
                let r = &recs[i];
                for hint in [ReadHint::Sequential, ReadHint::Random] {
                    self.trials += 1;
                    let res = catch(|| aged.read_record(r.offset, hint).map(|x| (x.header.to_vec(), x.data.to_vec(), x.offset, x.len)));
                    match res {
                        Ok(Ok((h, d, o, l))) => {
                            if !self.check_eq(r, &h, &d, o, l) {
                                self.violation("roundtrip-mismatch", "read_record-aged", "fault-free", format!("record {i} at {} len {} differs via {hint:?}", r.offset, r.len));
                            }
                        }
                        Ok(Err(e)) => self.violation("roundtrip-error", "read_record-aged", "fault-free", format!("record {i} at {} data_len {}: {e}", r.offset, r.data.len())),
                        Err(p) => self.violation("panic", "read_record-aged", "fault-free", p),
                    }
                }
            }
        }
        for (i, r) in recs.iter().enumerate() {
            for hint in [ReadHint::Sequential, ReadHint::Random] {
                self.trials += 1;
                let mut fresh = Reader::<H>::open(self.path, None).expect("open reader");
                let res = catch(|| fresh.read_record(r.offset, hint).map(|x| (x.header.to_vec(), x.data.to_vec(), x.offset, x.len)));
                match res {
                    Ok(Ok((h, d, o, l))) => {
                        if !self.check_eq(r, &h, &d, o, l) {
                            self.violation("roundtrip-mismatch", "read_record-fresh", "fault-free", format!("record {i} differs via {hint:?}"));
                        }
                    }
                    Ok(Err(e)) => self.violation("roundtrip-error", "read_record-fresh", "fault-free", format!("record {i} data_len {}: {e}", r.data.len())),
                    Err(p) => self.violation("panic", "read_record-fresh", "fault-free", p),
                }
            }
            self.trials += 1;
            match catch(|| parse_record::<H>(&self.bytes, r.offset as usize)) {
                Ok(Ok((h, d, l))) => {
                    if h[..] != r.header[..] || d != r.data || l != r.len {
                        self.violation("roundtrip-mismatch", "parse_record", "fault-free", format!("record {i} differs"));
                    }
                }
                Ok(Err(e)) => self.violation("roundtrip-error", "parse_record", "fault-free", format!("record {i}: {e}")),
                Err(p) => self.violation("panic", "parse_record", "fault-free", p),
            }
        }
        // iteration yields exactly the records, then ends
        self.trials += 1;
        let mut rd = Reader::<H>::open(self.path, None).expect("open reader");
        let start = self.start;
        let res = catch(|| {
            let mut it = rd.iter(start);
            let mut got = Vec::new();
            loop {
                match it.next_record() {
                    Ok(Some(x)) => got.push((x.header.to_vec(), x.data.to_vec(), x.offset, x.len)),
                    Ok(None) => return Ok(got),
                    Err(e) => return Err(format!("{e}")),
                }
            }
        });
        match res {
            Ok(Ok(got)) => {
                if got.len() != recs.len() || got.iter().zip(&recs).any(|(g, r)| !self.check_eq(r, &g.0, &g.1, g.2, g.3)) {
                    self.violation("roundtrip-mismatch", "iter", "fault-free", format!("iter yielded {} records, model has {}", got.len(), recs.len()));
                }
            }
            Ok(Err(e)) => self.violation("roundtrip-error", "iter", "fault-free", e),
            Err(p) => self.violation("panic", "iter", "fault-free", p),
        }
    }

    /// Runs the read paths against the currently faulted file/bytes for target record `ti`.
    /// `mem` is the faulted in-memory image (possibly shorter than the file for short cuts).
    fn check_paths(&mut self, ti: usize, class: &str, mem: &[u8], with_writer_open: bool, what: &str) {
        let r = self.recs[ti].clone();
        // P1/P2: record reads at the faulted record
        for (pname, hint) in [("read_record-random", ReadHint::Random), ("read_record-sequential", ReadHint::Sequential)] {
            self.trials += 1;
            let path = self.path;
            let res = catch(|| {
                let mut rd = Reader::<H>::open(path, None).map_err(|e| format!("open: {e}"))?;
                match rd.read_record(r.offset, hint) {
                    Ok(_) => Ok::<Option<&'static str>, String>(None),
                    Err(e) => Ok(Some(err_class(&e))),
                }
            });
            match res {
                Ok(Ok(None)) => self.violation("corruption-undetected", pname, class, format!("{what}: record at {} (stored len {}) returned Ok", r.offset, r.len)),
                Ok(Ok(Some(_))) => {}
                Ok(Err(e)) => self.violation("harness", pname, class, e),
                Err(p) => {
                    let site = panic_site(&p);
                    self.violation("panic", pname, &format!("{class}@{site}"), format!("{what}: {p}"));
                }
            }
        }
        // P3: iteration from two records before; predecessors identical, nothing at/after r.offset
        {
            self.trials += 1;
            let first = ti.saturating_sub(2);
            let from = self.recs[first].offset;
            let path = self.path;
            let res = catch(|| {
                let mut rd = Reader::<H>::open(path, None).map_err(|e| format!("open: {e}"))?;
                let mut it = rd.iter(from);
                let mut got = Vec::new();
                for _ in 0..=(ti - first + 1) {
                    match it.next_record() {
                        Ok(Some(x)) => got.push((x.header.to_vec(), x.data.to_vec(), x.offset, x.len)),
                        Ok(None) => break,
                        Err(_) => break,
                    }
                }
                Ok::<_, String>(got)
            });
            match res {
                Ok(Ok(got)) => {
                    let expect = &self.recs[first..ti];
                    if got.len() > expect.len() {
                        self.violation("corruption-undetected", "iter", class, format!("{what}: iteration yielded a record at or after faulted offset {}", r.offset));
                    } else if got.len() < expect.len() || got.iter().zip(expect).any(|(g, m)| !self.check_eq(m, &g.0, &g.1, g.2, g.3)) {
                        self.violation("predecessor-lost", "iter", class, format!("{what}: records before the fault at {} not returned intact ({} of {})", r.offset, got.len(), expect.len()));
                    }
                }
                Ok(Err(e)) => self.violation("harness", "iter", class, e),
                Err(p) => {
                    let site = panic_site(&p);
                    self.violation("panic", "iter", &format!("{class}@{site}"), format!("{what}: {p}"));
                }
            }
        }
        // P4: parse_record on the in-memory image
        {
            self.trials += 1;
            match catch(|| parse_record::<H>(mem, r.offset as usize).map(|_| ()).map_err(|e| err_class(&e))) {
                Ok(Ok(())) => self.violation("corruption-undetected", "parse_record", class, format!("{what}: parse_record at {} returned Ok", r.offset)),
                Ok(Err(_)) => {}
                Err(p) => {
                    let site = panic_site(&p);
                    self.violation("panic", "parse_record", &format!("{class}@{site}"), format!("{what}: {p}"));
                }
            }
            if ti > 0 {
                let prev = self.recs[ti - 1].clone();
                match catch(|| parse_record::<H>(mem, prev.offset as usize)) {
                    Ok(Ok((h, d, l))) => {
                        if h[..] != prev.header[..] || d != prev.data || l != prev.len {
                            self.violation("predecessor-lost", "parse_record", class, format!("{what}: predecessor differs"));
                        }
                    }
                    Ok(Err(e)) => self.violation("predecessor-lost", "parse_record", class, format!("{what}: predecessor unreadable: {e}")),
                    Err(p) => self.violation("panic", "parse_record", class, p),
                }
            }
        }
        // P5: Writer::open resumes right after the last intact record; an append there is readable
        if with_writer_open {
            self.trials += 1;
            let path = self.path;
            let size = self.size;
            let start = self.start;
            let new_hdr = hdr::<H>(r.offset ^ 77);
            let res = catch(|| {
                let mut w = Writer::<H>::open(path, size, start).map_err(|e| format!("Writer::open: {e}"))?;
                let wo = w.write_offset();
                let payload = b"appended-after-reopen";
                let app = w.append(&new_hdr, payload);
                let mut readable = None;
                if let Ok((off, _)) = app {
                    let _ = w.sync();
                    let mut rd = Reader::<H>::open(path, Some(w.flushed_offset())).map_err(|e| format!("open: {e}"))?;
                    readable = Some(match rd.read_record(off, ReadHint::Random) {
                        Ok(x) => x.data[..] == payload[..] && x.header[..] == new_hdr[..] && off == wo,
                        Err(_) => false,
                    });
                }
                Ok::<_, String>((wo, app.is_ok(), readable))
            });
            match res {
                Ok(Ok((wo, appended, readable))) => {
                    if wo != r.offset {
                        self.violation("reopen-position", "Writer::open", class, format!("{what}: reopened writer resumes at {wo}, last intact record ends at {}", r.offset));
                    } else if appended && readable != Some(true) {
                        self.violation("reopen-append-unreadable", "Writer::open", class, format!("{what}: append after reopen at {wo} not readable"));
                    }
                }
                Ok(Err(e)) => self.violation("reopen-failed", "Writer::open", class, format!("{what}: {e}")),
                Err(p) => {
                    let site = panic_site(&p);
                    self.violation("panic", "Writer::open", &format!("{class}@{site}"), format!("{what}: {p}"));
                }
            }
        }
    }

    fn file(&self) -> std::fs::File {
        std::fs::OpenOptions::new().read(true).write(true).open(self.path).expect("open scratch file")
    }

    /// Restores the file to the pristine image. Everything a trial can have touched lies in
    /// [start, data_end + appended record); the tail beyond is zeros in both images.
    fn restore(&self, f: &std::fs::File, _from: u64) {
        let end = self.bytes.len() as u64;
        let hi = (self.data_end as usize + 4096).min(self.bytes.len());
        f.set_len(end).expect("restore len");
        f.write_all_at(&self.bytes[self.start as usize..hi], self.start).expect("restore bytes");
    }

    fn flip_trial(&mut self, f: &std::fs::File, ti: usize, rel_bits: &[usize], class_kind: &str, n: u64) {
        let r = self.recs[ti].clone();
        let o = r.offset as usize;
        let lo = rel_bits.iter().min().unwrap() / 8;
        let hi = rel_bits.iter().max().unwrap() / 8;
        let mut mem = std::mem::take(&mut self.bytes);
        for &b in rel_bits {
            mem[o + b / 8] ^= 1 << (b % 8);
        }
        f.write_all_at(&mem[o + lo..=o + hi], (o + lo) as u64).expect("apply fault");
        let region = region_of::<H>(rel_bits[0]);
        let class = format!("{class_kind}-{region}");
        let what = format!("{class_kind} bits {:?} of record {ti} (data_len {}, compressed {})", &rel_bits[..rel_bits.len().min(4)], r.data.len(), r.compressed);
        if region == "len" || region == "compress-flag" {
            self.cases.insert(fnv(format!("{H}/{class_kind}/{}/{}/{}", rel_bits[0], r.len, r.compressed).as_bytes()));
        }
        let with_open = n % 16 == 0;
        self.check_paths(ti, &class, &mem, with_open, &what);
        for &b in rel_bits {
            mem[o + b / 8] ^= 1 << (b % 8);
        }
        self.bytes = mem;
        if with_open {
            self.restore(f, r.offset);
        } else {
            f.write_all_at(&self.bytes[o + lo..=o + hi], (o + lo) as u64).expect("restore fault");
        }
        *self.out.faults.entry(class_kind.to_string()).or_default() += 1;
    }

    fn trunc_trial(&mut self, f: &std::fs::File, ti: usize, cut: usize, zero_fill: bool) {
        let r = self.recs[ti].clone();
        let o = r.offset as usize;
        let class_kind = if zero_fill { "trunc-zero" } else { "trunc-short" };
        let region = region_of::<H>(cut * 8);
        let class = format!("{class_kind}-{region}");
        let what = format!("{class_kind} at +{cut} of record {ti} (stored len {})", r.len);
        if zero_fill {
            // zero everything from the cut to the end of written data
            if self.bytes[o + cut..o + r.len].iter().all(|&b| b == 0) {
                return; // not a fault on this record: its own stored bytes are unchanged
            }
            let mut mem = self.bytes.clone();
            for b in &mut mem[o + cut..self.data_end as usize] {
                *b = 0;
            }
            f.write_all_at(&mem[o + cut..self.data_end as usize], (o + cut) as u64).expect("apply zero fill");
            self.check_paths(ti, &class, &mem, true, &what);
        } else {
            f.set_len((o + cut) as u64).expect("truncate");
            let mem = self.bytes[..o + cut].to_vec();
            self.check_paths(ti, &class, &mem, true, &what);
        }
        self.restore(f, r.offset);
        *self.out.faults.entry(class_kind.to_string()).or_default() += 1;
    }
}

fn c17<const H: usize>(plan: &Value) -> RunOutcome {
    let scratch = Scratch::new("c17");
    let path = scratch.join("segment.log");
    let size = plan["size"].as_u64().unwrap() as usize;
    let start = plan["start"].as_u64().unwrap();
    let compress = plan["compress"].as_str().unwrap_or("off").to_string();
    let mut out = RunOutcome::default();
    let mut chain = Chain::new();

    // 1. write the records with the real writer
    let mut recs: Vec<MRec> = Vec::new();
    {
        let mut w = Writer::<H>::create(&path, size, start).expect("create writer");
        if compress == "on" {
            w.enable_compression();
        }
        for (i, r) in plan["records"].as_array().unwrap().iter().enumerate() {
            if compress == "toggle" {
                if i % 2 == 0 { w.enable_compression() } else { w.disable_compression() }
            }
            let len = r["len"].as_u64().unwrap() as usize;
            let data = gen_bytes(r["kind"].as_u64().unwrap() as u8, len, r["seed"].as_u64().unwrap());
            let header = hdr::<H>(r["seed"].as_u64().unwrap());
            match w.append(&header, &data) {
                Ok((offset, l)) => {
                    let compressed = (compress == "on" || (compress == "toggle" && i % 2 == 0)) && len >= 128;
                    chain.push_u64(offset);
                    chain.push_u64(l as u64);
                    recs.push(MRec { offset, len: l, header: header.to_vec(), data, compressed, old_headers: vec![] });
                }
                Err(seglog::write::WriteError::SegmentFull { .. }) => break,
                Err(e) => panic!("append failed: {e}"),
            }
        }
        w.sync().expect("sync");
    }
    let bytes = std::fs::read(&path).expect("read file");
    let data_end = recs.last().map(|r| r.offset + r.len as u64).unwrap_or(start);
    let mut ctx = C17Ctx::<H> {
        path: &path, size, start, recs, bytes, data_end, out: RunOutcome::default(), chain,
        sigs: BTreeMap::new(), cases: Default::default(), trials: 0,
    };
    if ctx.recs.is_empty() {
        out.evaluations = 1;
        out.event_hash = ctx.chain.0;
        return out;
    }
    ctx.fault_free();

    // 2. fault enumeration on target records
    let mut rng = Rng::new(plan["fault_seed"].as_u64().unwrap_or(1));
    let ntargets = (plan["targets"].as_u64().unwrap_or(2) as usize).min(ctx.recs.len());
    let mut targets: Vec<usize> = vec![ctx.recs.len() - 1];
    while targets.len() < ntargets {
        let t = rng.usize_below(ctx.recs.len());
        if !targets.contains(&t) {
            targets.push(t);
        }
    }
    let bit_cap_bytes = plan["bit_cap_bytes"].as_u64().unwrap_or(1024) as usize;
    let burst_positions = plan["burst_positions"].as_u64().unwrap_or(96) as usize;
    let trunc_cap = plan["trunc_cap"].as_u64().unwrap_or(160) as usize;
    let f = ctx.file();
    let mut exhaustive = true;
    for &ti in &targets {
        let l = ctx.recs[ti].len;
        let mut n = 0u64;
        // single-bit flips
        let mut bits: Vec<usize> = Vec::new();
        if l <= bit_cap_bytes {
            bits.extend(0..l * 8);
        } else {
            exhaustive = false;
            let headlen = 8 + H + 64.min(l - 8 - H);
            bits.extend(0..headlen * 8);
            bits.extend((l - 64.min(l - headlen)) * 8..l * 8);
            for _ in 0..512 {
                bits.push(rng.usize_below(l * 8));
            }
        }
        for b in bits {
            ctx.flip_trial(&f, ti, &[b], "bitflip", n);
            n += 1;
        }
        // bursts (first and last bit of the window flipped, interior pattern)
        let head_bits = (8 + H) * 8;
        let burst = |ctx: &mut C17Ctx<'_, H>, startbit: usize, len: usize, pattern: u64, n: &mut u64| {
            if startbit + len > l * 8 {
                return;
            }
            let mut v = vec![startbit];
            for k in 1..len - 1 {
                if pattern >> (k - 1) & 1 == 1 {
                    v.push(startbit + k);
                }
            }
            v.push(startbit + len - 1);
            ctx.flip_trial(&f, ti, &v, "burst", *n);
            *n += 1;
        };
        for startbit in 0..head_bits.min(l * 8) {
            for len in 2..=32usize {
                if len <= 4 {
                    for pattern in 0..(1u64 << (len - 2)) {
                        burst(&mut ctx, startbit, len, pattern, &mut n);
                    }
                } else if (startbit + len) % 3 == 0 || startbit < 32 {
                    // interior patterns: PRNG (2 per window in the length field, 1 elsewhere)
                    let p = rng.next_u64();
                    burst(&mut ctx, startbit, len, p, &mut n);
                }
            }
        }
        // whole-field bursts: exactly the 32-bit length field set to zero / all ones pattern
        if l * 8 >= 32 {
            let v: Vec<usize> = (0..32).filter(|b| ctx.bytes[ctx.recs[ti].offset as usize + b / 8] >> (b % 8) & 1 == 1).collect();
            if v.len() >= 2 {
                ctx.flip_trial(&f, ti, &v, "burst", 0);
            }
        }
        if l > 8 + H {
            for _ in 0..burst_positions {
                let startbit = head_bits + rng.usize_below((l - 8 - H) * 8);
                let len = 2 + rng.usize_below(31);
                let p = rng.next_u64();
                burst(&mut ctx, startbit, len, p, &mut n);
            }
        }
        // truncations
        let mut cuts: Vec<usize> = Vec::new();
        if l <= trunc_cap {
            cuts.extend(0..l);
        } else {
            exhaustive = false;
            cuts.extend(0..(8 + H + 32).min(l));
            cuts.push(l - 1);
            for _ in 0..trunc_cap.saturating_sub(cuts.len()) {
                cuts.push(rng.usize_below(l));
            }
        }
        for c in cuts {
            ctx.trunc_trial(&f, ti, c, false);
            ctx.trunc_trial(&f, ti, c, true);
        }
    }

    let mut o = std::mem::take(&mut ctx.out);
    o.evaluations = ctx.trials;
    o.nontrivial_cases = ctx.cases.iter().copied().collect();
    o.exhaustive = Some(exhaustive);
    for (sig, detail) in &ctx.sigs {
        ctx.chain.push_str(sig);
        o.violations.push(Violation { signature: sig.clone(), detail: detail.clone() });
    }
    ctx.chain.push_u64(ctx.trials);
    o.event_hash = ctx.chain.0;
    o.state_hash = fnv(&ctx.bytes[..ctx.data_end as usize]);
    o.schedule_hash = fnv(format!("{:?}", targets).as_bytes());
    o.sample = Some(json!({
        "h": H, "compress": compress, "records": ctx.recs.iter().take(6).map(|r| json!({"offset": r.offset, "stored_len": r.len, "data_len": r.data.len(), "compressed": r.compressed})).collect::<Vec<_>>(),
        "target_records": targets, "fault_trials": ctx.trials,
    }));
    o
}

// ---------------------------------------------------------------------------------------
// C18
// ---------------------------------------------------------------------------------------

pub fn plan_c18(tier: Tier, seed: u64) -> Value {
    let mut rng = Rng::new(seed);
    let h = *rng.pick(&[0u64, 1, 8, 16]);
    let nops = match tier {
        Tier::Quick => 40 + rng.below(120),
        Tier::Thorough => 40 + rng.below(260),
    };
    let size = *rng.pick(&[65_536u64 * 2, 200_000, 400_000, 1 << 20]);
    let start = *rng.pick(&[0u64, 46, 64]);
    let nreaders = 1 + rng.below(4);
    let window_faults = rng.chance(1, 2);
    let mut ops = Vec::new();
    // weights: append, flush, sync, set_len, toggle, replace, read, iter, read_bytes, clone_reader, bias-sequence
    let w_setlen = *rng.pick(&[0u64, 1, 3]);
    let weights = [30, 6, 12, w_setlen, 3, 4, 30, 6, 3, 2, 8];
    for _ in 0..nops {
        match rng.weighted(&weights) {
            0 => ops.push(json!({"op": "append", "len": gen_len(&mut rng, true), "kind": rng.below(3), "seed": rng.next_u64() >> 16})),
            1 => ops.push(json!({"op": "flush"})),
            2 => ops.push(json!({"op": "sync", "window_read": window_faults && rng.chance(1, 3), "pick": rng.next_u64() >> 16})),
            3 => ops.push(json!({"op": "set_len", "pick": rng.next_u64() >> 16, "window_read": window_faults && rng.chance(1, 2)})),
            4 => ops.push(json!({"op": "toggle"})),
            5 => ops.push(json!({"op": "replace", "reader": rng.below(8), "pick": rng.next_u64() >> 16, "seed": rng.next_u64() >> 16})),
            6 => ops.push(json!({"op": "read", "reader": rng.below(8), "pick": rng.next_u64() >> 16, "seq": rng.chance(1, 2), "near_end": rng.chance(1, 2)})),
            7 => ops.push(json!({"op": "iter", "reader": rng.below(8), "pick": rng.next_u64() >> 16})),
            8 => ops.push(json!({"op": "read_bytes", "reader": rng.below(8), "pick": rng.next_u64() >> 16, "len": rng.below(300)})),
            9 => ops.push(json!({"op": "clone_reader", "reader": rng.below(8)})),
            _ => {
                // the biased sequence: sequential read near the end (fills read-ahead from a region that is
                // still zeros / unflushed), then append+sync there, then the same reader reads again
                let reader = rng.below(8);
                ops.push(json!({"op": "read", "reader": reader, "pick": 0, "seq": true, "near_end": true}));
                ops.push(json!({"op": "append", "len": gen_len(&mut rng, true), "kind": rng.below(3), "seed": rng.next_u64() >> 16}));
                if rng.chance(1, 2) {
                    ops.push(json!({"op": "flush"}));
                    ops.push(json!({"op": "read", "reader": reader, "pick": 0, "seq": true, "near_end": true}));
                }
                ops.push(json!({"op": "sync", "window_read": false, "pick": 0}));
                ops.push(json!({"op": "read", "reader": reader, "pick": 0, "seq": true, "near_end": true}));
                ops.push(json!({"op": "iter", "reader": reader, "pick": rng.next_u64() >> 16}));
            }
        }
    }
    json!({"h": h, "size": size, "start": start, "readers": nreaders, "ops": ops})
}

pub fn exec_c18(plan: &Value) -> RunOutcome {
    set_engine_b(true);
    let out = exec_c18_inner(plan);
    set_engine_b(false);
    out
}

fn exec_c18_inner(plan: &Value) -> RunOutcome {
    match plan["h"].as_u64().unwrap_or(0) {
        0 => c18::<0>(plan),
        1 => c18::<1>(plan),
        8 => c18::<8>(plan),
        _ => c18::<16>(plan),
    }
}

thread_local! {
    static WINDOW: RefCell<Option<Box<dyn FnMut(&'static str, u64)>>> = const { RefCell::new(None) };
    static ENGINE_B: RefCell<bool> = const { RefCell::new(false) };
}

/// Called by the installed simulator for the seglog window sites. Returns true when engine B is
/// running on this thread (the point is then fully handled here: a reader operation may run inline).
pub fn window_hook(site: &'static str, b: u64) -> bool {
    if !ENGINE_B.with(|e| *e.borrow()) {
        return false;
    }
    let cb = WINDOW.with(|w| w.borrow_mut().take());
    if let Some(mut cb) = cb {
        cb(site, b);
        WINDOW.with(|w| {
            let mut w = w.borrow_mut();
            if w.is_none() {
                *w = Some(cb);
            }
        });
    }
    true
}

pub fn set_engine_b(on: bool) {
    ENGINE_B.with(|e| *e.borrow_mut() = on);
}

struct C18State<const H: usize> {
    recs: Vec<MRec>,
    flushed: u64,
    write_offset: u64,
    start: u64,
    sigs: BTreeMap<String, String>,
    checks: u64,
    chain: Chain,
    probes: BTreeMap<String, u64>,
    /// per reader: has its read-ahead possibly been filled (any sequential read) — for probes only
    stale_candidate: Vec<Option<(u64, u64)>>, // (block start, flushed offset at fill)
}

impl<const H: usize> C18State<H> {
    fn violation(&mut self, clause: &str, path: &str, shape: &str, detail: String) {
        let sig = format!("C18/{clause}/{path}/{shape}");
        self.sigs.entry(sig).or_insert(detail);
    }

    fn boundaries(&self) -> Vec<u64> {
        let mut b: Vec<u64> = self.recs.iter().map(|r| r.offset).collect();
        b.push(self.write_offset);
        b
    }

    /// Checks a record read at `offset` (a model boundary) through `rd` against the model.
    /// `alt_flushed`: second acceptable flushed offset when executing inside an intra-op window.
    fn check_read(&mut self, rd: &mut Reader<H>, ri: usize, offset: u64, hint: ReadHint, alt_flushed: Option<u64>, ctx: &str) {
        self.checks += 1;
        let model = self.recs.iter().find(|r| r.offset == offset).cloned();
        let res = catch(|| rd.read_record(offset, hint).map(|x| (x.header.to_vec(), x.data.to_vec(), x.offset, x.len)).map_err(|e| (err_class(&e), format!("{e}"))));
        let hint_s = if hint == ReadHint::Sequential { "sequential" } else { "random" };
        let visible = |fl: u64| model.as_ref().map(|m| m.offset + m.len as u64 <= fl).unwrap_or(false);
        let vis_main = visible(self.flushed);
        let vis_alt = alt_flushed.map(visible);
        // probe: same reader had a read-ahead fill covering this offset while it was not yet flushed
        if hint == ReadHint::Sequential {
            if let Some((blk, fl_at_fill)) = self.stale_candidate[ri] {
                if offset >= blk && offset < blk + 65536 && offset >= fl_at_fill && vis_main {
                    *self.probes.entry("read_via_buffer_filled_before_flush".into()).or_default() += 1;
                }
            }
        }
        match res {
            Ok(Ok((h, d, o, l))) => {
                let Some(m) = model else {
                    self.violation("data-beyond-flushed", &format!("read_record-{hint_s}"), ctx, format!("read at {offset} returned a record but the model has none there (flushed {})", self.flushed));
                    return;
                };
                if !(vis_main || vis_alt == Some(true)) {
                    self.violation("data-beyond-flushed", &format!("read_record-{hint_s}"), ctx, format!("read at {offset} (end {}) returned data beyond flushed offset {}", m.offset + m.len as u64, self.flushed));
                    return;
                }
                let header_ok = h == m.header;
                if !(header_ok && d == m.data && o == m.offset && l == m.len) {
                    self.violation("wrong-record", &format!("read_record-{hint_s}"), ctx, format!("read at {offset}: returned record differs from the one written there (data_len got {} want {}, header match {header_ok})", d.len(), m.data.len()));
                }
            }
            Ok(Err((class, msg))) => {
                let must_succeed = vis_main && vis_alt != Some(false);
                if must_succeed {
                    self.violation("flushed-record-unreadable", &format!("read_record-{hint_s}"), &format!("{ctx}/{class}"), format!("read at {offset} below flushed {} failed: {msg}", self.flushed));
                } else if class != "oob" && !(vis_main || vis_alt == Some(true)) {
                    // at or beyond flushed: must be OutOfBounds, never a content-derived answer
                    if offset + 8 > self.flushed.max(alt_flushed.unwrap_or(0)) {
                        self.violation("read-beyond-flushed-not-oob", &format!("read_record-{hint_s}"), &format!("{ctx}/{class}"), format!("read at {offset} ≥ flushed {} answered {class}: {msg}", self.flushed));
                    }
                }
            }
            Err(p) => self.violation("panic", &format!("read_record-{hint_s}"), ctx, p),
        }
        if hint == ReadHint::Sequential {
            let blk = offset - offset % 65536;
            match self.stale_candidate[ri] {
                Some((b, _)) if b == blk => {}
                _ => self.stale_candidate[ri] = Some((blk, self.flushed)),
            }
        }
    }

    fn check_iter(&mut self, rd: &mut Reader<H>, from: u64, ctx: &str) {
        self.checks += 1;
        let expect: Vec<MRec> = self.recs.iter().filter(|r| r.offset >= from && r.offset + r.len as u64 <= self.flushed).cloned().collect();
        let res = catch(|| {
            let mut it = rd.iter(from);
            let mut got = Vec::new();
            loop {
                match it.next_record() {
                    Ok(Some(x)) => got.push((x.header.to_vec(), x.data.to_vec(), x.offset, x.len)),
                    Ok(None) => return Ok(got),
                    Err(e) => return Err((got.len(), err_class(&e), format!("{e}"))),
                }
                if got.len() > 100_000 {
                    return Err((got.len(), "runaway", "iteration did not end".into()));
                }
            }
        });
        match res {
            Ok(Ok(got)) => {
                if got.len() > expect.len() {
                    self.violation("iter-extra-records", "iter", ctx, format!("iteration from {from} yielded {} records, flushed model has {} (flushed {})", got.len(), expect.len(), self.flushed));
                } else if got.len() < expect.len() {
                    self.violation("iter-missing-records", "iter", ctx, format!("iteration from {from} yielded {} records, flushed model has {} (flushed {})", got.len(), expect.len(), self.flushed));
                } else {
                    for (g, m) in got.iter().zip(&expect) {
                        let header_ok = g.0 == m.header;
                        if !(header_ok && g.1 == m.data && g.2 == m.offset && g.3 == m.len) {
                            self.violation("wrong-record", "iter", ctx, format!("iteration from {from}: record at {} differs", m.offset));
                            break;
                        }
                    }
                }
            }
            Ok(Err((n, class, msg))) => self.violation("iter-error", "iter", &format!("{ctx}/{class}"), format!("iteration from {from} failed after {n} records (model has {} flushed): {msg}", expect.len())),
            Err(p) => self.violation("panic", "iter", ctx, p),
        }
    }
}

fn c18<const H: usize>(plan: &Value) -> RunOutcome {
    let scratch = Scratch::new("c18");
    let path = scratch.join("segment.log");
    let size = plan["size"].as_u64().unwrap() as usize;
    let start = plan["start"].as_u64().unwrap();
    let mut w = Writer::<H>::create(&path, size, start).expect("create");
    let nreaders = plan["readers"].as_u64().unwrap_or(1) as usize;
    let mut readers: Vec<Reader<H>> = (0..nreaders).map(|_| Reader::<H>::open(&path, Some(w.flushed_offset())).expect("open reader")).collect();
    let mut st = C18State::<H> {
        recs: vec![], flushed: start, write_offset: start, start, sigs: BTreeMap::new(), checks: 0,
        chain: Chain::new(), probes: BTreeMap::new(), stale_candidate: vec![None; nreaders],
    };
    let mut compression = false;
    let mut faults: BTreeMap<String, u64> = BTreeMap::new();
    let mut nontrivial = false;
    let ops = plan["ops"].as_array().cloned().unwrap_or_default();
    let mut sched = Chain::new();
    for op in &ops {
        let name = op["op"].as_str().unwrap_or("");
        sched.push_str(name);
        match name {
            "append" => {
                let len = op["len"].as_u64().unwrap() as usize;
                let data = gen_bytes(op["kind"].as_u64().unwrap() as u8, len, op["seed"].as_u64().unwrap());
                let header = hdr::<H>(op["seed"].as_u64().unwrap());
                match catch(|| w.append(&header, &data)) {
                    Ok(Ok((offset, l))) => {
                        if offset != st.write_offset {
                            st.violation("append-offset", "Writer::append", "offset", format!("append returned offset {offset}, model write offset {}", st.write_offset));
                        }
                        st.chain.push_u64(offset);
                        st.chain.push_u64(l as u64);
                        st.recs.push(MRec { offset, len: l, header: header.to_vec(), data, compressed: compression && len >= 128, old_headers: vec![] });
                        st.write_offset = offset + l as u64;
                    }
                    Ok(Err(seglog::write::WriteError::SegmentFull { .. })) => {
                        *st.probes.entry("segment_full".into()).or_default() += 1;
                    }
                    Ok(Err(e)) => st.violation("append-error", "Writer::append", "io", format!("{e}")),
                    Err(p) => st.violation("panic", "Writer::append", "append", p),
                }
            }
            "flush" => {
                let _ = w.flush_writer();
            }
            "toggle" => {
                compression = !compression;
                if compression { w.enable_compression() } else { w.disable_compression() }
            }
            "sync" => {
                let want_window = op["window_read"].as_bool().unwrap_or(false) && !readers.is_empty();
                let pre_flushed = st.flushed;
                let post_flushed = st.write_offset;
                if want_window {
                    // a reader operation runs between fsync and the flushed-offset store, and right after it
                    let pick = op["pick"].as_u64().unwrap_or(0);
                    let stp: *mut C18State<H> = &mut st;
                    let rdp: *mut Vec<Reader<H>> = &mut readers;
                    let cb: Box<dyn FnMut(&'static str, u64)> = Box::new(move |site, _| {
                        // SAFETY: the callback only runs synchronously inside w.sync() below, on this
                        // thread, while `st` and `readers` are alive and not otherwise borrowed.
                        let (st, readers) = unsafe { (&mut *stp, &mut *rdp) };
                        let ri = (pick as usize) % readers.len();
                        let b = st.boundaries();
                        let off = b[(pick as usize / 7) % b.len()];
                        let hint = if pick % 2 == 0 { ReadHint::Sequential } else { ReadHint::Random };
                        let (main, alt) = if site == "fsync" { (pre_flushed, post_flushed) } else { (post_flushed, pre_flushed) };
                        let saved = st.flushed;
                        st.flushed = main;
                        st.check_read(&mut readers[ri], ri, off, hint, Some(alt), "window-sync");
                        st.flushed = saved;
                        *st.probes.entry("reader_op_inside_sync_window".into()).or_default() += 1;
                    });
                    WINDOW.with(|wd| *wd.borrow_mut() = Some(cb));
                }
                let r = catch(|| w.sync());
                WINDOW.with(|wd| *wd.borrow_mut() = None);
                match r {
                    Ok(Ok(off)) => {
                        if off != st.write_offset {
                            st.violation("sync-offset", "Writer::sync", "offset", format!("sync returned {off}, model {}", st.write_offset));
                        }
                        st.flushed = st.write_offset;
                        if want_window {
                            *faults.entry("reader_in_sync_window".into()).or_default() += 1;
                        }
                    }
                    Ok(Err(e)) => st.violation("sync-error", "Writer::sync", "io", format!("{e}")),
                    Err(p) => st.violation("panic", "Writer::sync", "sync", p),
                }
            }
            "set_len" => {
                let b = st.boundaries();
                let to = b[(op["pick"].as_u64().unwrap_or(0) as usize) % b.len()];
                let want_window = op["window_read"].as_bool().unwrap_or(false) && !readers.is_empty();
                let post_sync_flushed = st.write_offset;
                if want_window && to < st.write_offset {
                    let pick = op["pick"].as_u64().unwrap_or(0);
                    let stp: *mut C18State<H> = &mut st;
                    let rdp: *mut Vec<Reader<H>> = &mut readers;
                    let cb: Box<dyn FnMut(&'static str, u64)> = Box::new(move |site, _| {
                        if site != "seglog:set_len:lowered" {
                            return;
                        }
                        // SAFETY: as above — synchronous, same thread, no other borrow is live.
                        let (st, readers) = unsafe { (&mut *stp, &mut *rdp) };
                        let ri = (pick as usize / 3) % readers.len();
                        // inside the window the flushed offset is already lowered; the model for the
                        // reader is "records below `to`" (pre-op model truncated)
                        let saved_f = st.flushed;
                        let saved_recs = st.recs.clone();
                        st.flushed = to;
                        st.recs.retain(|r| r.offset < to);
                        let offs: Vec<u64> = saved_recs.iter().map(|r| r.offset).collect();
                        if !offs.is_empty() {
                            let off = offs[(pick as usize / 11) % offs.len()];
                            let hint = if pick % 2 == 0 { ReadHint::Sequential } else { ReadHint::Random };
                            if off < to {
                                st.check_read(&mut readers[ri], ri, off, hint, Some(post_sync_flushed), "window-set_len");
                            }
                        }
                        st.recs = saved_recs;
                        st.flushed = saved_f;
                        *st.probes.entry("reader_op_inside_set_len_window".into()).or_default() += 1;
                    });
                    WINDOW.with(|wd| *wd.borrow_mut() = Some(cb));
                }
                let r = catch(|| w.set_len(to));
                WINDOW.with(|wd| *wd.borrow_mut() = None);
                match r {
                    Ok(Ok(())) => {
                        if to < st.write_offset {
                            st.recs.retain(|r| r.offset < to);
                            st.write_offset = to;
                            st.flushed = to;
                            *faults.entry("set_len_truncation".into()).or_default() += 1;
                            nontrivial = true;
                            // readers' buffers may hold pre-truncation bytes: note for probes
                        }
                    }
                    Ok(Err(e)) => st.violation("set_len-error", "Writer::set_len", "io", format!("{e}")),
                    Err(p) => st.violation("panic", "Writer::set_len", "set_len", p),
                }
            }
            "replace" => {
                if readers.is_empty() || st.recs.is_empty() {
                    continue;
                }
                let ri = (op["reader"].as_u64().unwrap_or(0) as usize) % readers.len();
                let flushed_recs: Vec<usize> = (0..st.recs.len()).filter(|&i| st.recs[i].offset + st.recs[i].len as u64 <= st.flushed).collect();
                if flushed_recs.is_empty() || H == 0 {
                    continue;
                }
                let idx = flushed_recs[(op["pick"].as_u64().unwrap_or(0) as usize) % flushed_recs.len()];
                let new_header = hdr::<H>(op["seed"].as_u64().unwrap_or(0));
                let off = st.recs[idx].offset;
                match catch(|| readers[ri].replace_header(off, new_header)) {
                    Ok(Ok(())) => {
                        let old = std::mem::replace(&mut st.recs[idx].header, new_header.to_vec());
                        st.recs[idx].old_headers.push(old);
                        *faults.entry("header_replaced".into()).or_default() += 1;
                        // the replacing reader itself must see the new header on both paths
                        let m = st.recs[idx].clone();
                        for hint in [ReadHint::Random, ReadHint::Sequential] {
                            st.checks += 1;
                            match catch(|| readers[ri].read_record(off, hint).map(|x| x.header.to_vec()).map_err(|e| format!("{e}"))) {
                                Ok(Ok(h)) => {
                                    if h != m.header {
                                        st.violation("stale-header-own-reader", "replace_header", "own-reader", format!("reader that replaced the header at {off} reads back the old one via {hint:?}"));
                                    }
                                }
                                Ok(Err(e)) => st.violation("flushed-record-unreadable", "replace_header", "after-replace", format!("record at {off} unreadable after header replace: {e}")),
                                Err(p) => st.violation("panic", "replace_header", "after-replace", p),
                            }
                        }
                    }
                    Ok(Err(e)) => st.violation("replace-error", "replace_header", err_class(&e), format!("replace_header at {off} (flushed {}) failed: {e}", st.flushed)),
                    Err(p) => st.violation("panic", "replace_header", "replace", p),
                }
            }
            "read" => {
                if readers.is_empty() {
                    continue;
                }
                let ri = (op["reader"].as_u64().unwrap_or(0) as usize) % readers.len();
                let b = st.boundaries();
                let pick = op["pick"].as_u64().unwrap_or(0) as usize;
                let off = if op["near_end"].as_bool().unwrap_or(false) {
                    // the last flushed boundary or the first unflushed one
                    let fl = st.flushed;
                    let mut cands: Vec<u64> = b.iter().copied().filter(|&x| x >= fl).take(2).collect();
                    if let Some(last) = st.recs.iter().filter(|r| r.offset + r.len as u64 <= fl).last() {
                        cands.push(last.offset);
                    }
                    if cands.is_empty() { b[pick % b.len()] } else { cands[pick % cands.len()] }
                } else {
                    b[pick % b.len()]
                };
                let hint = if op["seq"].as_bool().unwrap_or(false) { ReadHint::Sequential } else { ReadHint::Random };
                st.check_read(&mut readers[ri], ri, off, hint, None, "op");
            }
            "iter" => {
                if readers.is_empty() {
                    continue;
                }
                let ri = (op["reader"].as_u64().unwrap_or(0) as usize) % readers.len();
                let b = st.boundaries();
                let from = b[(op["pick"].as_u64().unwrap_or(0) as usize) % b.len()];
                st.check_iter(&mut readers[ri], from, "op");
                let blk = from - from % 65536;
                st.stale_candidate[ri] = Some((blk, st.flushed));
            }
            "read_bytes" => {
                if readers.is_empty() {
                    continue;
                }
                let ri = (op["reader"].as_u64().unwrap_or(0) as usize) % readers.len();
                let b = st.boundaries();
                let off = b[(op["pick"].as_u64().unwrap_or(0) as usize) % b.len()];
                let len = op["len"].as_u64().unwrap_or(8) as usize;
                let mut buf = vec![0u8; len];
                st.checks += 1;
                match catch(|| readers[ri].read_bytes(off, &mut buf).map_err(|e| err_class(&e))) {
                    Ok(Ok(())) => {
                        if off + len as u64 > st.flushed {
                            st.violation("data-beyond-flushed", "read_bytes", "op", format!("read_bytes {off}+{len} succeeded beyond flushed {}", st.flushed));
                        }
                    }
                    Ok(Err(class)) => {
                        if off + len as u64 <= st.flushed {
                            st.violation("flushed-record-unreadable", "read_bytes", class, format!("read_bytes {off}+{len} below flushed {} failed", st.flushed));
                        }
                    }
                    Err(p) => st.violation("panic", "read_bytes", "op", p),
                }
            }
            "clone_reader" => {
                if readers.is_empty() || readers.len() >= 8 {
                    continue;
                }
                let ri = (op["reader"].as_u64().unwrap_or(0) as usize) % readers.len();
                if let Ok(c) = readers[ri].try_clone() {
                    readers.push(c);
                    st.stale_candidate.push(None);
                }
            }
            _ => {}
        }
    }
    // final sweep: sync, then every reader iterates from the start
    if w.sync().is_ok() {
        st.flushed = st.write_offset;
    }
    for ri in 0..readers.len() {
        let from = st.start;
        st.check_iter(&mut readers[ri], from, "final");
    }
    if st.probes.get("read_via_buffer_filled_before_flush").copied().unwrap_or(0) > 0 {
        nontrivial = true;
    }
    let mut out = RunOutcome::default();
    out.evaluations = st.checks.max(1);
    out.steps = ops.len() as u64;
    out.faults = faults;
    out.probes = st.probes.clone();
    out.schedule_hash = sched.0;
    out.state_hash = { let mut c = Chain::new(); for r in &st.recs { c.push_u64(r.offset); c.push_u64(r.len as u64); } c.push_u64(st.flushed); c.0 };
    for (sig, detail) in &st.sigs {
        st.chain.push_str(sig);
        out.violations.push(Violation { signature: sig.clone(), detail: detail.clone() });
    }
    st.chain.push_u64(st.checks);
    out.event_hash = st.chain.0;
    if nontrivial {
        out.nontrivial = Some(sched.0 ^ out.state_hash);
    }
    out.sample = Some(json!({"h": H, "size": size, "readers": nreaders, "ops": ops.iter().take(25).collect::<Vec<_>>(), "records_at_end": st.recs.len()}));
    out
}
