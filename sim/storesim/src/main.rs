//! storesim: engine A (real `sierradb::Database` under a gated scheduler) and engine B
//! (real `seglog` handles on a real file). One binary, dispatching on the property id.

mod seglogsim;
mod util;

use serde_json::Value;
use simcore::runner::{Engine, Tier};
use simcore::{PropertyInfo, RunOutcome};

struct StoreSim;

const SEGLOG_REAL: &[&str] = &["seglog::write::Writer", "seglog::read::Reader", "seglog::read::Iter", "seglog::parse::parse_record", "real file on tmpfs (/dev/shm)"];

impl Engine for StoreSim {
    fn name() -> &'static str {
        "storesim"
    }

    fn properties() -> Vec<PropertyInfo> {
        vec![
            PropertyInfo {
                id: "C17",
                level: "fault_enumeration",
                rule: "per sampled segment (H in {0,1,8,16}, compression off/on/toggled, boundary record sizes): every single-bit flip (all bits when the stored record <= bit cap), bursts of 2..32 bits over head+header and sampled data positions, every truncation length (short file and zero-filled), each checked through random read, sequential read, iteration, parse_record and (sampled) Writer::open. Non-trivial and distinct = distinct (H, fault kind, bit index, stored length, compressed?) of faults that hit the 4-byte length field or the compression flag.",
                quick_runs: 96,
                thorough_runs: 1600,
                real_components: SEGLOG_REAL,
                stub_components: &["stored-byte faults are applied by the harness with pwrite/ftruncate on the real file"],
                assumptions: &["CRC-32C collisions for multi-bit faults beyond the enumerated classes are not searched", "fault enumeration is exhaustive per target record only when the record is below the bit/truncation caps (reported per run)"],
            },
            PropertyInfo {
                id: "C18",
                level: "exploration",
                rule: "seeded sequences of 40-300 operations (append, flush, sync, set_len, compression toggle, replace_header, random/sequential reads at model boundaries, iteration, read_bytes, reader clone) over one Writer and 1-8 long-lived Readers, reader operations also injected inside the set_len/sync windows through hook points; model = record vector + flushed boundary. Non-trivial = a run with a truncation or a sequential read served for an offset that lay beyond the flushed offset when that reader's read-ahead block was filled; distinct by (operation sequence hash, final state hash).",
                quick_runs: 100000,
                thorough_runs: 2500000,
                real_components: SEGLOG_REAL,
                stub_components: &[],
                assumptions: &["handles are driven from one thread at operation granularity plus the hook windows inside set_len/sync; races on the FlushedOffset atomic itself are not explored"],
            },
        ]
    }

    fn plan(prop: &str, tier: Tier, run_seed: u64) -> Value {
        match prop {
            "C17" => seglogsim::plan_c17(tier, run_seed),
            "C18" => seglogsim::plan_c18(tier, run_seed),
            _ => unreachable!(),
        }
    }

    fn execute(prop: &str, plan: &Value) -> RunOutcome {
        match prop {
            "C17" => seglogsim::exec_c17(plan),
            "C18" => seglogsim::exec_c18(plan),
            _ => unreachable!(),
        }
    }

    fn init_process() {
        util::reap_stale_scratch();
        util::install_panic_hook();
        seglogsim::install_window_sim();
    }
}

fn main() {
    simcore::runner::main::<StoreSim>()
}
