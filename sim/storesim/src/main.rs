//! storesim: engine A (real `sierradb::Database` under a gated scheduler) and engine B
//! (real `seglog` handles on a real file). One binary, dispatching on the property id.

mod dbsim;
mod gate;
mod model;
mod props_conc;
mod props_crash;
mod props_seq;
mod seglogsim;
mod util;

use serde_json::Value;
use simcore::runner::{Engine, Tier};
use simcore::{PropertyInfo, RunOutcome};

struct StoreSim;

const DB_REAL: &[&str] = &["sierradb::Database", "writer thread pool (real OS threads, gated at hook points)", "reader thread pool (1 thread)", "flusher pool + MPHF/bloom index files", "moka block cache", "bucket iterators", "seglog", "real files on tmpfs (/dev/shm)"];
const DB_STUB: &[&str] = &["writer-pool syncer thread in free mode (the simulator sends the same FlushPoll at the deadlines the thread computes); in gated mode (C04, C15, C16, C20) the thread runs its real loop and only its sleep is simulated", "kernel durability (fsync ledger + crash images built by the harness)"];
const DB_ASSUME: &[&str] = &["reader_threads = 1 so reader job order is FIFO", "between two hook points a writer thread runs atomically", "a stream id is only used with partition keys of one bucket (stream lookup is per bucket)"];
const SEGLOG_REAL: &[&str] = &["seglog::write::Writer", "seglog::read::Reader", "seglog::read::Iter", "seglog::parse::parse_record", "real file on tmpfs (/dev/shm)"];

impl Engine for StoreSim {
    fn name() -> &'static str {
        "storesim"
    }

    fn properties() -> Vec<PropertyInfo> {
        vec![
            PropertyInfo {
                id: "C01",
                level: "exploration",
                rule: "seeded histories of 20-90 operations (valid, version-conflicting, key-conflicting, oversized, bad-timestamp-mid-transaction and I/O-failing appends; reopens; clock advances/jumps) on swarm configurations (1-4 buckets, min..1 MiB segments, compression, 6 sync policies, 4 cache sizes); at every acknowledgement: fsync-ledger check, immediate reads through 4 APIs, power-loss reopen (always right after a rollover / failed append, else sampled). Non-trivial = >=1 rollover and >=1 append that failed after writing records, both followed by an acknowledged append; distinct by (outcome sequence hash, model state hash).",
                quick_runs: 1000,
                thorough_runs: 40000,
                real_components: DB_REAL,
                stub_components: DB_STUB,
                assumptions: DB_ASSUME,
            },
            PropertyInfo {
                id: "C02",
                level: "exploration",
                rule: "seeded histories of 30-110 appends with every expectation kind right and wrong, repeated streams inside a transaction, several streams/partitions per bucket, expected partition sequences, same-bucket key conflicts, reopens and held/released index flushes; the reference model decides accept/reject class per append and the observable state (versions, sequences; full scans every 5th append, after reopen and at the end) is diffed after every step. Non-trivial = >=3 distinct rejection classes, an accepted repeated-stream transaction and a reopen or rollover between dependent appends.",
                quick_runs: 1600,
                thorough_runs: 40000,
                real_components: DB_REAL,
                stub_components: DB_STUB,
                assumptions: DB_ASSUME,
            },
            PropertyInfo {
                id: "C03",
                level: "exploration",
                rule: "seeded histories of accepted appends (records straddling the 64 KiB block, >2 KiB, >4 KiB, multi-event transactions) with 3-6 sweep checkpoints (index flush held, released, after reopen): for every stream and partition, start in {0..len+1 (all when len<=12, else boundaries + 8 sampled), transaction boundaries +-1, u64::MAX}, both directions, batch in {1,2,3,7,50,len+5}; forward must equal model[start..], reverse must be set-equal to model[..=start] with transaction-contiguous groups in decreasing order of their first position. Non-trivial = >=2 sealed segments, a multi-event transaction larger than a block, both cache hit and miss paths taken.",
                quick_runs: 320,
                thorough_runs: 12000,
                real_components: DB_REAL,
                stub_components: DB_STUB,
                assumptions: DB_ASSUME,
            },
            PropertyInfo {
                id: "C04",
                level: "exploration",
                rule: "gated scheduler: 1-2 appender clients issuing mostly multi-event transactions (some failing half way on a bad timestamp) and 1-3 reader clients (event/transaction lookups, stream and partition scans in both directions, version queries) on minimum-size segments; the writer thread is parked at every hook point inside handle_write (after each event, after the commit record, after the buffer flush) while readers run; 1-3 process-crash images are taken while the writer is parked inside a transaction and reopened. Oracle: every returned event belongs to a successful transaction of the serial order and every returned group contains all siblings that pass the filter. Non-trivial = a read executed while a writer was parked strictly inside a transaction, or a crash image taken there.",
                quick_runs: 1600,
                thorough_runs: 40000,
                real_components: DB_REAL,
                stub_components: DB_STUB,
                assumptions: DB_ASSUME,
            },
            PropertyInfo {
                id: "C15",
                level: "exploration",
                rule: "gated scheduler: 1-3 appender and 1-3 reader clients on minimum-size segments; the writer is parked at each of six rollover stages (notably after the live-index swap and before/between the reader-pool installs) and inside sync while readers run complete operations; iterator construction is parked at its yield point while a whole rollover runs; policies uniform / writer-starved / readers-preferred-inside-rollover. Oracle: a read invoked after an acknowledgement was observed returns the event / a version or sequence at least as new / a scan containing it; one reader's observations never go backwards; scans are gapless prefixes of the final serial order. Non-trivial = at least one reader operation executed while a writer was parked inside a rollover stage; distinct by schedule hash.",
                quick_runs: 1600,
                thorough_runs: 40000,
                real_components: DB_REAL,
                stub_components: DB_STUB,
                assumptions: DB_ASSUME,
            },
            PropertyInfo {
                id: "C16",
                level: "exploration",
                rule: "gated scheduler: 2-6 clients each issuing 3-10 optimistic appends (Exact(v)/Empty computed from what that client last observed, some touching two streams, some with an expected partition sequence) on 1-3 hot streams over 1-4 buckets and writer threads. Oracle over the recorded history: successes ordered by (partition, first sequence) replay on the model with exactly the returned versions and sequences; every rejection is justified at some point of that order compatible with its invocation/response steps; the final observable state equals the serial execution. Non-trivial = two clients had the same expectation for a stream in flight at once.",
                quick_runs: 2400,
                thorough_runs: 60000,
                real_components: DB_REAL,
                stub_components: DB_STUB,
                assumptions: DB_ASSUME,
            },
            PropertyInfo {
                id: "C20",
                level: "exploration",
                rule: "gated scheduler with the simulated sync timer: 1-6 clients issuing appends (valid, rejected, failing half way, rolling over) under timer-driven sync policies; client tasks are starved between receiving the writer's reply and their next poll while the writer processes later requests, rollovers and timer ticks. After the last operation is issued the scheduler turns fair (round-robin, timer included): every append future must resolve within 2000 steps and 32 sync_idle_intervals of simulated time. Non-trivial = an append future polled for the first time after a rollover that followed its reply.",
                quick_runs: 2400,
                thorough_runs: 60000,
                real_components: DB_REAL,
                stub_components: DB_STUB,
                assumptions: DB_ASSUME,
            },
            PropertyInfo {
                id: "C05",
                level: "fault_enumeration",
                rule: "seeded histories of 5-40 appends submitted without waiting for their acknowledgement under sync policies that leave an unsynced tail (timer-only, by bytes, by events, defaults); at 2-5 crash instants per history every power-loss cut k of the live segment's unsynced tail is built from the fsync ledger (image = bytes written up to k + durable bytes after k; every byte when the tail <= 4 KiB and below the cap, else record/field boundaries +-1 plus PRNG cuts) and reopened: open must succeed, the state must equal the model after a per-bucket prefix of the written transactions containing every acknowledged one, all read APIs must work, three further appends must continue the numbering, a second reopen must succeed. Non-trivial = cuts strictly inside a transaction or record; distinct by (history hash, model hash).",
                quick_runs: 64,
                thorough_runs: 320,
                real_components: DB_REAL,
                stub_components: DB_STUB,
                assumptions: DB_ASSUME,
            },
            PropertyInfo {
                id: "C06",
                level: "fault_enumeration",
                rule: "seeded histories with 1-4 rollovers on minimum-size segments, background index flushes held at their hook; per sealed segment the three index files are put into states {empty, strict prefixes (every 64 bytes + header-field boundaries), complete} of the content the real flush job writes, one file swept through all its states while the other two take PRNG states, plus the all-empty (process crash before the flush ran) and all-complete corners; each image is reopened and checked like C05 (open succeeds, every acknowledged event found by id, stream scan and partition scan, numbering continues). Non-trivial = images where at least one index file is a strict non-empty prefix.",
                quick_runs: 160,
                thorough_runs: 1600,
                real_components: DB_REAL,
                stub_components: DB_STUB,
                assumptions: DB_ASSUME,
            },
            PropertyInfo {
                id: "C19",
                level: "exploration",
                rule: "per run a segment size, compression mode and a target transaction (1-3 events, zero/text/PRNG payloads from tiny to a third of a segment). A twin of the target is first stored in the empty segment (premise: it fits; stored size measured from the append hook), then filler appends steer the live segment's free space below / between / above (estimated size, stored size), then the target is appended with up to 5 identical attempts. Non-trivial = free space strictly between estimated and stored size at the first attempt; distinct by (estimated, stored, free, compression).",
                quick_runs: 1200,
                thorough_runs: 40000,
                real_components: DB_REAL,
                stub_components: DB_STUB,
                assumptions: DB_ASSUME,
            },
            PropertyInfo {
                id: "C17",
                level: "fault_enumeration",
                rule: "per sampled segment (H in {0,1,8,16}, compression off/on/toggled, boundary record sizes): every single-bit flip (all bits when the stored record <= bit cap), bursts of 2..32 bits over head+header and sampled data positions, every truncation length (short file and zero-filled), each checked through random read, sequential read, iteration, parse_record and (sampled) Writer::open. Non-trivial and distinct = distinct (H, fault kind, bit index, stored length, compressed?) of faults that hit the 4-byte length field or the compression flag.",
                quick_runs: 96,
                thorough_runs: 1600,
                real_components: SEGLOG_REAL,
                stub_components: &["stored-byte faults are applied by the harness with pwrite/ftruncate on the real file"],
                assumptions: &["CRC-32C collisions for multi-bit faults beyond the enumerated classes are not searched", "fault enumeration is exhaustive per target record only when the record is below the bit/truncation caps (reported per run)"],
            },
            PropertyInfo {
                id: "C18",
                level: "exploration",
                rule: "seeded sequences of 40-300 operations (append, flush, sync, set_len, compression toggle, replace_header, random/sequential reads at model boundaries, iteration, read_bytes, reader clone) over one Writer and 1-8 long-lived Readers, reader operations also injected inside the set_len/sync windows through hook points; model = record vector + flushed boundary. Non-trivial = a run with a truncation or a sequential read served for an offset that lay beyond the flushed offset when that reader's read-ahead block was filled; distinct by (operation sequence hash, final state hash).",
                quick_runs: 100000,
                thorough_runs: 2500000,
                real_components: SEGLOG_REAL,
                stub_components: &[],
                assumptions: &["handles are driven from one thread at operation granularity plus the hook windows inside set_len/sync; races on the FlushedOffset atomic itself are not explored"],
            },
        ]
    }

    fn plan(prop: &str, tier: Tier, run_seed: u64) -> Value {
        match prop {
            "C01" => props_seq::plan_c01(tier, run_seed),
            "C02" => props_seq::plan_c02(tier, run_seed),
            "C03" => props_seq::plan_c03(tier, run_seed),
            "C19" => props_seq::plan_c19(tier, run_seed),
            "C04" => props_conc::plan_c04(tier, run_seed),
            "C15" => props_conc::plan_c15(tier, run_seed),
            "C16" => props_conc::plan_c16(tier, run_seed),
            "C20" => props_conc::plan_c20(tier, run_seed),
            "C05" => props_crash::plan_c05(tier, run_seed),
            "C06" => props_crash::plan_c06(tier, run_seed),
            "C17" => seglogsim::plan_c17(tier, run_seed),
            "C18" => seglogsim::plan_c18(tier, run_seed),
            _ => unreachable!(),
        }
    }

    fn execute(prop: &str, plan: &Value) -> RunOutcome {
        match prop {
            "C01" => props_seq::run_seq("C01", plan),
            "C02" => props_seq::run_seq("C02", plan),
            "C03" => props_seq::run_seq("C03", plan),
            "C19" => props_seq::run_c19(plan),
            "C04" => props_conc::run_conc("C04", plan),
            "C15" => props_conc::run_conc("C15", plan),
            "C16" => props_conc::run_conc("C16", plan),
            "C20" => props_conc::run_conc("C20", plan),
            "C05" => props_crash::run_c05(plan),
            "C06" => props_crash::run_c06(plan),
            "C17" => seglogsim::exec_c17(plan),
            "C18" => seglogsim::exec_c18(plan),
            _ => unreachable!(),
        }
    }

    fn init_process() {
        util::reap_stale_scratch();
        util::install_panic_hook();
        util::raise_fd_limit();
        let _ = gate::gate();
    }
}

fn main() {
    simcore::runner::main::<StoreSim>()
}
