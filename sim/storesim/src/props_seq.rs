//! Engine A, sequential scheduler: every operation runs to completion before the next starts
//! (the fault-free configuration that must match the model exactly), with the simulated timer,
//! injected append I/O errors, clean reopens and power-loss images.
//! Serves C01, C02, C03 and C19.

use std::collections::{BTreeMap, BTreeSet};

use serde::{Deserialize, Serialize};
use serde_json::{Value, json};
use sierradb::IterDirection;
use sierradb::bucket::segment::EventRecord;
use simcore::runner::Tier;
use simcore::{Rng, RunOutcome, fnv};

use crate::dbsim::*;
use crate::model::{MEvent, Reject};

#[derive(Clone, Debug, Serialize, Deserialize)]
#[serde(tag = "op")]
pub enum Op {
    Append(AppendSpec),
    Reopen,
    /// take a power-loss image (everything unsynced lost), open it, check every acknowledged txn
    PowerLoss,
    /// let pending background index flushes run / hold them from now on
    FlushRelease,
    FlushHold,
    /// C03: scan-parameter sweep against the model
    Sweep { seed: u64 },
    /// advance the simulated clock (and let the timer fire if due)
    Advance { us: u64 },
    /// jump the wall clock (may go backwards)
    WallJump { ms: i64 },
}

#[derive(Clone, Debug, Serialize, Deserialize)]
pub struct SeqPlan {
    pub cfg: Cfg,
    pub ops: Vec<Op>,
    #[serde(default)]
    pub check_ledger: bool,
    #[serde(default)]
    pub check_reads: bool,
    #[serde(default)]
    pub check_versions: bool,
    #[serde(default)]
    pub full_scan_every: usize,
    #[serde(default)]
    pub power_loss_after_rollover: bool,
}

// ---------------------------------------------------------------------------------------
// generators
// ---------------------------------------------------------------------------------------

pub fn gen_cfg(rng: &mut Rng, sync_variety: bool) -> Cfg {
    let buckets = *rng.pick(&[1u16, 1, 2, 4]);
    let divisors: Vec<u16> = (1..=buckets).filter(|d| buckets % d == 0).collect();
    let writer_threads = *rng.pick(&divisors);
    let partitions = buckets * (1 + rng.below(3) as u16);
    let segment_size = *rng.pick(&[131_072usize, 131_072, 131_072, 163_840, 262_144, 1_048_576]);
    // (interval_us, idle_us, max_batch, min_sync_bytes)
    let sync = if sync_variety {
        match rng.below(6) {
            0 => (0, 50_000, 50, 4096),                       // sync on every append
            1 => (1_000_000, 2_000_000, 1_000_000, 2048),     // batched by bytes
            2 => (1_000_000, 2_000_000, 3, usize::MAX / 2),   // batched by events
            3 => (5_000, 50_000, 1_000_000, usize::MAX / 2),  // timer only
            4 => (5_000, 50_000, 50, 4096),                   // shipped defaults
            _ => (200_000, 400_000, 8, 16_384),
        }
    } else {
        (0, 50_000, 50, 4096)
    };
    let cache_bytes = *rng.pick(&[0usize, 65_536, 4 * 65_536, 64 << 20]) * buckets as usize;
    let pks = 1 + rng.usize_below(4);
    Cfg {
        buckets,
        writer_threads,
        partitions,
        segment_size,
        compression: rng.chance(1, 2),
        sync_interval_us: sync.0,
        sync_idle_us: sync.1,
        max_batch: sync.2,
        min_sync_bytes: sync.3,
        cache_bytes,
        pks,
        streams: 1 + rng.usize_below(6),
        id_seed: rng.next_u64() >> 8,
    }
}

pub fn gen_payload_len(rng: &mut Rng, segment_size: usize, big_bias: u64) -> usize {
    match rng.below(12 + big_bias) {
        0..=2 => rng.below(64) as usize,
        3 => 100 + rng.below(60) as usize, // around the 128 B compression threshold
        4 => 1900 + rng.below(300) as usize,
        5 => 3900 + rng.below(400) as usize,
        6 => 16_000 + rng.below(1000) as usize,
        7 => 800 + rng.below(600) as usize,
        8 => rng.below(5000) as usize,
        9 => 60_000 + rng.below(8000) as usize, // straddles the 64 KiB block
        _ => segment_size / 3 - rng.below(4000) as usize,
    }
}

/// Streams whose home partition key is `pk` (a stream is always used with keys of one bucket).
fn streams_of_pk(cfg: &Cfg, pk: usize) -> Vec<usize> {
    (0..cfg.streams * cfg.pks).filter(|s| s % cfg.pks == pk).collect()
}

pub struct Mix {
    pub wrong_expect: u64, // per 100
    pub conflict: u64,
    pub oversized: u64,
    pub bad_ts: u64,
    pub io_fail: u64,
    pub multi: u64,
    pub big_bias: u64,
    pub max_events: usize,
}

pub fn gen_append(rng: &mut Rng, cfg: &Cfg, mix: &Mix) -> AppendSpec {
    let pk = rng.usize_below(cfg.pks);
    let own = streams_of_pk(cfg, pk);
    let nev = if rng.below(100) < mix.multi { 2 + rng.usize_below(mix.max_events.max(2) - 1) } else { 1 };
    let mut events = Vec::new();
    let wrong = rng.below(100) < mix.wrong_expect;
    let wrong_at = rng.usize_below(nev);
    for i in 0..nev {
        let mut stream = *rng.pick(&own);
        if rng.below(100) < mix.conflict {
            // a stream whose home key differs but lives in the same bucket
            let b = cfg.bucket_of_pk(pk);
            let foreign: Vec<usize> = (0..cfg.pks).filter(|&p| p != pk && cfg.bucket_of_pk(p) == b).collect();
            if !foreign.is_empty() {
                let fpk = *rng.pick(&foreign);
                stream = *rng.pick(&streams_of_pk(cfg, fpk));
            }
        }
        let exp = if wrong && i == wrong_at {
            *rng.pick(&[ExpSpec::Cur(1), ExpSpec::Cur(-1), ExpSpec::Cur(5), ExpSpec::Empty, ExpSpec::Exists, ExpSpec::Exact(0), ExpSpec::Exact(u64::MAX)])
        } else {
            *rng.pick(&[ExpSpec::Any, ExpSpec::Any, ExpSpec::Cur(0), ExpSpec::Cur(0), ExpSpec::Exists, ExpSpec::Empty])
        };
        let oversized = rng.below(1000) < mix.oversized;
        events.push(EvSpec {
            stream,
            exp,
            name_len: if rng.chance(1, 200) { 256 + rng.usize_below(10) } else { 1 + rng.usize_below(40) },
            meta_len: if rng.chance(1, 3) { rng.usize_below(200) } else { 0 },
            payload_len: if oversized { cfg.segment_size } else { gen_payload_len(rng, cfg.segment_size / nev.max(1), mix.big_bias) },
            kind: rng.below(3) as u8,
            bad_ts: rng.below(100) < mix.bad_ts && (nev == 1 || i >= 1),
            meta_kind: None,
        });
    }
    let seq = match rng.below(20) {
        0 => ExpSpec::Cur(1),
        1 => ExpSpec::Empty,
        2 => ExpSpec::Exists,
        3 | 4 => ExpSpec::Cur(0),
        5 => ExpSpec::Exact(3),
        _ => ExpSpec::Any,
    };
    let io_fail = rng.below(100) < mix.io_fail;
    AppendSpec {
        pk,
        events,
        seq,
        seed: rng.next_u64() >> 12,
        io_fail_at: if io_fail { Some(rng.below(nev as u64 + 1) as u32) } else { None },
        io_fail_mid: io_fail && rng.chance(1, 2),
    }
}

pub fn plan_c01(tier: Tier, seed: u64) -> Value {
    let mut rng = Rng::new(seed);
    let cfg = gen_cfg(&mut rng, true);
    let nops = match tier { Tier::Quick => 20 + rng.below(40), Tier::Thorough => 20 + rng.below(70) };
    let faulty = rng.chance(2, 3);
    let mix = Mix { wrong_expect: 10, conflict: 3, oversized: 8, bad_ts: if faulty { 8 } else { 0 }, io_fail: if faulty { 6 } else { 0 }, multi: 35, big_bias: 5, max_events: 5 };
    let mut ops = Vec::new();
    for _ in 0..nops {
        match rng.below(40) {
            0 => ops.push(Op::Reopen),
            1 | 2 => ops.push(Op::PowerLoss),
            3 => ops.push(Op::Advance { us: rng.below(100_000) }),
            4 if faulty => ops.push(Op::WallJump { ms: rng.below(20_000) as i64 - 10_000 }),
            _ => ops.push(Op::Append(gen_append(&mut rng, &cfg, &mix))),
        }
    }
    serde_json::to_value(SeqPlan { cfg, ops, check_ledger: true, check_reads: true, check_versions: false, full_scan_every: 0, power_loss_after_rollover: true }).unwrap()
}

pub fn plan_c02(tier: Tier, seed: u64) -> Value {
    let mut rng = Rng::new(seed);
    let mut cfg = gen_cfg(&mut rng, true);
    cfg.streams = 2 + rng.usize_below(5);
    let nops = match tier { Tier::Quick => 30 + rng.below(50), Tier::Thorough => 30 + rng.below(80) };
    let mix = Mix { wrong_expect: 30, conflict: 10, oversized: 10, bad_ts: 3, io_fail: 0, multi: 45, big_bias: 3, max_events: 5 };
    let mut ops = Vec::new();
    for _ in 0..nops {
        match rng.below(30) {
            0 | 1 => ops.push(Op::Reopen),
            2 => ops.push(Op::FlushHold),
            3 => ops.push(Op::FlushRelease),
            _ => ops.push(Op::Append(gen_append(&mut rng, &cfg, &mix))),
        }
    }
    serde_json::to_value(SeqPlan { cfg, ops, check_ledger: false, check_reads: false, check_versions: true, full_scan_every: 5, power_loss_after_rollover: false }).unwrap()
}

pub fn plan_c03(tier: Tier, seed: u64) -> Value {
    let mut rng = Rng::new(seed);
    let mut cfg = gen_cfg(&mut rng, false);
    cfg.streams = 1 + rng.usize_below(4);
    let nops = match tier { Tier::Quick => 25 + rng.below(50), Tier::Thorough => 25 + rng.below(110) };
    let mix = Mix { wrong_expect: 5, conflict: 0, oversized: 0, bad_ts: 0, io_fail: 0, multi: 45, big_bias: 6, max_events: 5 };
    let mut ops = vec![Op::FlushHold];
    let sweeps = 2 + rng.below(3);
    for i in 0..nops {
        match rng.below(40) {
            0 => ops.push(Op::Reopen),
            1 => ops.push(Op::FlushRelease),
            2 => ops.push(Op::FlushHold),
            _ => ops.push(Op::Append(gen_append(&mut rng, &cfg, &mix))),
        }
        if (i + 1) % (nops / sweeps).max(1) == 0 {
            ops.push(Op::Sweep { seed: rng.next_u64() >> 12 });
        }
    }
    ops.push(Op::Sweep { seed: rng.next_u64() >> 12 });
    ops.push(Op::FlushRelease);
    ops.push(Op::Sweep { seed: rng.next_u64() >> 12 });
    ops.push(Op::Reopen);
    ops.push(Op::Sweep { seed: rng.next_u64() >> 12 });
    serde_json::to_value(SeqPlan { cfg, ops, check_ledger: false, check_reads: false, check_versions: false, full_scan_every: 0, power_loss_after_rollover: false }).unwrap()
}

// ---------------------------------------------------------------------------------------
// interpreter
// ---------------------------------------------------------------------------------------

pub struct SeqRun {
    pub h: Harness,
    pub streams: BTreeMap<String, u16>,
    pub pids: BTreeSet<u16>,
    pub acked: Vec<usize>,
    pub reject_classes: BTreeSet<Reject>,
    pub appends_after_failed_partial: u64,
    pub failed_partial_pending: bool,
    pub rollover_seen: u64,
    pub acked_after_rollover_and_failure: bool,
    pub repeated_stream_accept: bool,
    pub dependent_across_reopen: bool,
    pub sched_sig: Vec<String>,
}

pub fn run_seq(prop: &'static str, plan: &Value) -> RunOutcome {
    let plan: SeqPlan = match serde_json::from_value(plan.clone()) {
        Ok(p) => p,
        Err(e) => {
            let mut out = RunOutcome::default();
            out.violations.push(simcore::Violation { signature: format!("{prop}/harness/bad-plan/parse"), detail: e.to_string() });
            return out;
        }
    };
    let mut h = Harness::new(prop, plan.cfg.clone());
    if let Err(e) = h.open() {
        h.violation("open-fails", "DatabaseBuilder::open", "fresh-dir", e);
        return h.finish(None, json!({"cfg": plan.cfg}), None);
    }
    let mut r = SeqRun {
        h, streams: BTreeMap::new(), pids: BTreeSet::new(), acked: vec![], reject_classes: BTreeSet::new(),
        appends_after_failed_partial: 0, failed_partial_pending: false, rollover_seen: 0,
        acked_after_rollover_and_failure: false, repeated_stream_accept: false, dependent_across_reopen: false, sched_sig: vec![],
    };
    let trace = std::env::var_os("VERIF_TRACE").is_some();
    let mut rollovers_before;
    let mut just_rolled = 0u32;
    let mut had_partial_failure = false;
    let mut sweep_nontrivial = false;
    let mut n_appends = 0usize;
    'ops: for (opi, op) in plan.ops.iter().enumerate() {
        r.h.steps += 1;
        if trace && !matches!(op, Op::Append(_)) {
            eprintln!("op {opi}: {op:?}");
        }
        let nsigs = r.h.sigs.len();
        let _ = nsigs;
        match op {
            Op::Append(spec) => {
                n_appends += 1;
                let txn = r.h.concretise(spec);
                for e in &txn.events {
                    r.streams.insert(e.stream.clone(), txn.partition_id);
                }
                r.pids.insert(txn.partition_id);
                let verdict = r.h.model.check(&txn);
                rollovers_before = r.h.gate.lock().rollovers;
                let _ = r.h.gate.take_appended();
                if let Some(n) = spec.io_fail_at {
                    r.h.gate.arm_fail(if spec.io_fail_mid { "seglog:append:io:mid" } else { "seglog:append:io" }, n);
                }
                let outcome = r.h.append_blocking(&txn);
                let armed_left = r.h.gate.disarm_fail();
                let injected = spec.io_fail_at.is_some() && !armed_left;
                let appended = r.h.gate.take_appended();
                let rolled = r.h.gate.lock().rollovers > rollovers_before;
                if rolled {
                    r.rollover_seen += 1;
                    just_rolled = 2;
                }
                if trace {
                    eprintln!("op {opi}: append pk{} pid {} {} events streams {:?} verdict {:?} -> {} rolled={rolled} appended={:?}", spec.pk, txn.partition_id, txn.events.len(), txn.events.iter().map(|e| e.stream.as_str()).collect::<Vec<_>>(), verdict, match &outcome { AppendOutcome::Ok(r) => format!("Ok seq {}..{} offsets {:?}", r.first_partition_sequence, r.last_partition_sequence, r.offsets), AppendOutcome::Err(e) => format!("Err {e}"), AppendOutcome::Stuck => "Stuck".into() }, appended);
                }
                r.h.sched.push_str(match &outcome { AppendOutcome::Ok(_) => "ok", AppendOutcome::Err(_) => "err", AppendOutcome::Stuck => "stuck" });
                match outcome {
                    AppendOutcome::Ok(res) => {
                        if injected {
                            // the injected failure hit a later record than this transaction wrote: impossible
                            r.h.violation("harness", "inject", "io", "injected failure fired but append succeeded".into());
                        }
                        match verdict {
                            Err(class) => {
                                r.h.violation("accepted-but-must-reject", "append_events", class.as_str(), format!("op {opi}: store accepted a transaction the rule rejects ({})", class.as_str()));
                                // keep the model in step with the store as far as possible: stop the run
                                break 'ops;
                            }
                            Ok(()) => {
                                let acc = r.h.model.apply(&txn).expect("checked");
                                r.h.model.txns[acc.txn_no].acked = true;
                                if let Some(d) = accept_matches(&acc, &res) {
                                    r.h.violation("wrong-positions", "append_events", "result", format!("op {opi}: {d}"));
                                }
                                r.acked.push(acc.txn_no);
                                let distinct: BTreeSet<&String> = txn.events.iter().map(|e| &e.stream).collect();
                                if distinct.len() < txn.events.len() {
                                    r.repeated_stream_accept = true;
                                }
                                if had_partial_failure && r.rollover_seen > 0 {
                                    r.acked_after_rollover_and_failure = true;
                                }
                                r.h.chain.push_u64(res.first_partition_sequence);
                                r.h.chain.push_u64(*res.offsets.first().unwrap_or(&0));
                                if plan.check_ledger {
                                    // (1) the acknowledged bytes are covered by an fsync of their segment file
                                    r.h.evals += 1;
                                    let bucket = txn.partition_id % r.h.cfg.buckets;
                                    let live = r.h.live_segments();
                                    if let (Some(path), Some(&(off, len))) = (live.get(&bucket), appended.last()) {
                                        let end = off + len;
                                        let dur = r.h.gate.durable(path);
                                        let synced = dur.as_ref().map(|d| d.synced_upto).unwrap_or(0);
                                        if synced < end {
                                            let ctx = if just_rolled > 0 { "after-rollover" } else { "steady" };
                                            r.h.violation("ack-before-fsync", "append_events", ctx, format!("op {opi}: append acknowledged with last byte at {end} but segment {} is fsynced only up to {synced}", path.strip_prefix(&r.h.dir).unwrap_or(path).display()));
                                        }
                                    }
                                }
                                if plan.check_reads {
                                    // (2) immediate reads with no writer progress in between
                                    let m = r.h.model.clone();
                                    let ctx = if just_rolled > 0 { "right-after-ack/after-rollover" } else { "right-after-ack" };
                                    r.h.check_txn_readable(&m, acc.txn_no, ctx);
                                }
                                if plan.power_loss_after_rollover && (just_rolled > 0 || had_partial_failure && r.appends_after_failed_partial < 2) {
                                    power_loss_check(&mut r, opi);
                                }
                                if had_partial_failure {
                                    r.appends_after_failed_partial += 1;
                                }
                            }
                        }
                    }
                    AppendOutcome::Err(e) => {
                        let class = classify(&e);
                        if appended.len() > 0 {
                            had_partial_failure = true;
                            r.appends_after_failed_partial = 0;
                            r.h.probe("append_failed_after_writing_records");
                        }
                        if injected {
                            r.h.fault("append_io_error_taken");
                        } else {
                            match verdict {
                                Err(want) => {
                                    r.reject_classes.insert(want);
                                    if class != want {
                                        r.h.violation("wrong-rejection-class", "append_events", want.as_str(), format!("op {opi}: rule rejects with {} but the store answered {e}", want.as_str()));
                                    }
                                    if want == Reject::BadTimestamp {
                                        r.h.fault("bad_timestamp_mid_transaction");
                                    }
                                }
                                Ok(()) => {
                                    let segment_full = matches!(&e, sierradb::error::WriteError::Writer(seglog::write::WriteError::SegmentFull { .. }));
                                    if segment_full {
                                        // lack of space although the transaction fits an empty segment: C19's subject
                                        r.h.probe("segment_full_on_acceptable_append");
                                        if prop == "C19" {
                                            r.h.violation("rejected-for-space", "append_events", "SegmentFull", format!("op {opi}: {e}"));
                                        }
                                    } else {
                                        r.h.violation("rejected-but-must-accept", "append_events", class.as_str(), format!("op {opi}: the rule accepts this transaction but the store answered {e}"));
                                    }
                                }
                            }
                        }
                    }
                    AppendOutcome::Stuck => {
                        r.h.probe("append_stuck");
                        if prop == "C20" {
                            r.h.violation("append-never-completes", "append_events", "sequential", format!("op {opi}: append future still pending after 64 timer ticks with an idle store"));
                        }
                        break 'ops;
                    }
                }
                if just_rolled > 0 {
                    just_rolled -= 1;
                }
                if plan.check_versions {
                    let m = r.h.model.clone();
                    let (s, p) = (r.streams.clone(), r.pids.clone());
                    r.h.check_versions(&m, &s, &p, "after-op");
                    if plan.full_scan_every > 0 && n_appends % plan.full_scan_every == 0 {
                        r.h.check_full_scans(&m, &s, &p, "periodic");
                    }
                }
            }
            Op::Reopen => {
                r.h.close();
                r.h.reopens += 1;
                r.h.fault("clean_close_and_reopen");
                if let Err(e) = r.h.open() {
                    r.h.violation("open-fails", "DatabaseBuilder::open", "clean-reopen", e);
                    break 'ops;
                }
                r.dependent_across_reopen = true;
                let m = r.h.model.clone();
                if plan.check_reads {
                    for t in r.acked.clone() {
                        r.h.check_txn_readable(&m, t, "after-clean-reopen");
                    }
                }
                if plan.check_versions {
                    let (s, p) = (r.streams.clone(), r.pids.clone());
                    r.h.check_versions(&m, &s, &p, "after-reopen");
                    r.h.check_full_scans(&m, &s, &p, "after-reopen");
                }
            }
            Op::PowerLoss => power_loss_check(&mut r, opi),
            Op::FlushRelease => {
                r.h.gate.set_flush_hold(false);
                r.h.gate.release_flush_jobs();
            }
            Op::FlushHold => {
                r.h.gate.set_flush_hold(true);
                r.h.fault("background_index_flush_held");
            }
            Op::Advance { us } => {
                r.h.gate.advance(us * 1000);
                if r.h.cfg.timer_enabled() && r.h.gate.now() >= r.h.next_tick {
                    r.h.tick();
                    r.h.settle();
                }
            }
            Op::WallJump { ms } => {
                r.h.gate.wall_jump(ms * 1_000_000);
                r.h.fault("wall_clock_jump");
            }
            Op::Sweep { seed } => {
                if sweep(&mut r, *seed) {
                    sweep_nontrivial = true;
                }
            }
        }
    }
    // final whole-state comparison
    let m = r.h.model.clone();
    let (s, p) = (r.streams.clone(), r.pids.clone());
    if plan.check_versions && r.h.db.is_some() {
        r.h.check_versions(&m, &s, &p, "final");
        r.h.check_full_scans(&m, &s, &p, "final");
    }
    let nontrivial = match prop {
        "C01" => (r.rollover_seen > 0 && r.acked_after_rollover_and_failure).then(|| r.h.sched.0 ^ m.state_hash()),
        "C02" => (r.reject_classes.len() >= 3 && r.repeated_stream_accept && (r.dependent_across_reopen || r.rollover_seen > 0)).then(|| r.h.sched.0 ^ m.state_hash()),
        "C03" => sweep_nontrivial.then(|| r.h.sched.0 ^ m.state_hash()),
        _ => Some(r.h.sched.0 ^ m.state_hash()),
    };
    let sample = json!({
        "cfg": plan.cfg,
        "ops": plan.ops.iter().take(12).map(|o| short_op(o)).collect::<Vec<_>>(),
        "ops_total": plan.ops.len(),
        "acked_txns": r.acked.len(),
        "events_in_model": m.events.len(),
        "rollovers": r.rollover_seen,
        "reject_classes": r.reject_classes.iter().map(|c| c.as_str()).collect::<Vec<_>>(),
    });
    r.h.finish(nontrivial, sample, None)
}

pub fn short_op(o: &Op) -> Value {
    match o {
        Op::Append(a) => json!({"append": {"pk": a.pk, "events": a.events.iter().map(|e| format!("s{}:{:?}:{}B{}", e.stream, e.exp, e.payload_len, if e.bad_ts { ":badts" } else { "" })).collect::<Vec<_>>(), "seq": format!("{:?}", a.seq), "io_fail_at": a.io_fail_at}}),
        other => serde_json::to_value(other).unwrap_or(Value::Null),
    }
}

/// Power loss with everything unsynced lost: every acknowledged transaction must still be readable.
fn power_loss_check(r: &mut SeqRun, opi: usize) {
    r.h.gate.release_flush_jobs();
    let img = r.h.crash_image(true, None);
    r.h.fault("power_loss_image");
    let model = r.h.model.clone();
    let acked = r.acked.clone();
    let res = r.h.with_image_db(&img, |h| {
        for t in &acked {
            h.check_txn_readable(&model, *t, "after-power-loss");
        }
    });
    if let Err(e) = res {
        r.h.violation("open-fails", "DatabaseBuilder::open", "power-loss-image", format!("op {opi}: {e}"));
    }
    let _ = std::fs::remove_dir_all(&img);
}

// ---------------------------------------------------------------------------------------
// C03 sweep
// ---------------------------------------------------------------------------------------

fn group_keys(g: &[EventRecord], by_stream: bool) -> Vec<u64> {
    g.iter().map(|e| if by_stream { e.stream_version } else { e.partition_sequence }).collect()
}

/// Checks one scan result against the model; returns a description of the first discrepancy.
fn check_scan(want_all: &[&MEvent], by_stream: bool, start: u64, dir: IterDirection, batches: &[Vec<Vec<EventRecord>>]) -> Option<(&'static str, String)> {
    let key = |m: &MEvent| if by_stream { m.version } else { m.sequence };
    match dir {
        IterDirection::Forward => {
            let want: Vec<&MEvent> = want_all.iter().copied().filter(|m| key(m) >= start).collect();
            let got: Vec<EventRecord> = batches.iter().flatten().flatten().cloned().collect();
            diff_lists(&want, &got).map(|d| ("forward-differs", d))
        }
        IterDirection::Reverse => {
            let want: Vec<&MEvent> = want_all.iter().copied().filter(|m| key(m) <= start).collect();
            let groups: Vec<&Vec<EventRecord>> = batches.iter().flatten().collect();
            // (a) set equality with the model's events at or before the position
            let mut got_keys: BTreeSet<u64> = BTreeSet::new();
            for g in &groups {
                for e in g.iter() {
                    let k = if by_stream { e.stream_version } else { e.partition_sequence };
                    got_keys.insert(k);
                    match want_all.iter().find(|m| key(m) == k) {
                        Some(m) => {
                            if let Some(d) = m.diff(e) {
                                return Some(("reverse-content", format!("event at {k}: {d}")));
                            }
                        }
                        None => return Some(("reverse-unknown-event", format!("returned event at position {k} that the model does not have"))),
                    }
                }
            }
            let want_keys: BTreeSet<u64> = want.iter().map(|m| key(m)).collect();
            if let Some(extra) = got_keys.difference(&want_keys).next() {
                // later siblings of the transaction that contains the start position are a listed
                // known finding; anything else beyond the start is a different defect
                let start_txn = want_all.iter().find(|m| key(m) == start).map(|m| m.txn_no);
                let all_siblings = start_txn.is_some() && got_keys.difference(&want_keys).all(|k| want_all.iter().find(|m| key(m) == *k).map(|m| m.txn_no) == start_txn);
                let clause = if all_siblings { "reverse-beyond-start-same-transaction" } else { "reverse-beyond-start" };
                return Some((clause, format!("returned event at position {extra} which lies after the start position {start}")));
            }
            if let Some(missing) = want_keys.difference(&got_keys).next() {
                return Some(("reverse-missing", format!("event at position {missing} (<= start {start}) never returned; returned {} of {}", got_keys.len(), want_keys.len())));
            }
            // (b) each group is a contiguous run inside one transaction
            for g in &groups {
                if g.is_empty() {
                    return Some(("reverse-empty-group", "empty group".into()));
                }
                let t = g[0].transaction_id;
                if g.iter().any(|e| e.transaction_id != t) {
                    return Some(("reverse-group-mixes-transactions", format!("group {:?} mixes transactions", group_keys(g, by_stream))));
                }
                let ks = group_keys(g, by_stream);
                if ks.windows(2).any(|w| w[1] <= w[0]) {
                    return Some(("reverse-group-order", format!("group {ks:?} is not increasing")));
                }
            }
            // (c) groups in strictly decreasing order. A group may repeat later events of its own
            // transaction (it is read from one event up to the commit), so the order key is the
            // group's first position, which is the event the group was produced for.
            let firsts: Vec<u64> = groups.iter().map(|g| group_keys(g, by_stream)[0]).collect();
            if firsts.windows(2).any(|w| w[1] >= w[0]) {
                return Some(("reverse-groups-not-decreasing", format!("group first positions {firsts:?}")));
            }
            None
        }
    }
}

/// Scan-parameter sweep: every stream and partition, start positions, both directions, batch sizes.
/// Returns true when the sweep was non-trivial (≥2 sealed segments and a block-crossing transaction).
fn sweep(r: &mut SeqRun, seed: u64) -> bool {
    let mut rng = Rng::new(seed);
    let m = r.h.model.clone();
    let hits0 = sierradb::cache::SegmentBlockCache::cache_hits();
    let miss0 = sierradb::cache::SegmentBlockCache::cache_misses();
    let targets: Vec<(bool, String, u16)> = r.streams.iter().map(|(s, p)| (true, s.clone(), *p)).chain(r.pids.iter().map(|p| (false, String::new(), *p))).collect();
    for (by_stream, name, pid) in targets {
        let all: Vec<&MEvent> = if by_stream { m.stream_events(&name) } else { m.partition_events(pid) };
        let len = all.len() as u64;
        let mut starts: BTreeSet<u64> = BTreeSet::new();
        if len <= 12 {
            starts.extend(0..=len + 1);
        } else {
            starts.extend([0, 1, len - 1, len, len + 1]);
            for _ in 0..8 {
                starts.insert(rng.below(len + 1));
            }
        }
        // transaction boundaries ± 1 (segment-first versions are among them)
        for w in all.windows(2) {
            if w[0].txn_no != w[1].txn_no && rng.chance(1, 3) {
                let k = if by_stream { w[1].version } else { w[1].sequence };
                starts.insert(k);
                starts.insert(k.saturating_sub(1));
            }
        }
        starts.insert(u64::MAX);
        let batches = [1usize, 2, 3, 7, 50, len as usize + 5];
        for &start in &starts {
            for dir in [IterDirection::Forward, IterDirection::Reverse] {
                // one batch size per (start, dir), rotating; all sizes for the boundary starts
                let sizes: Vec<usize> = if start == 0 || start == u64::MAX { batches.to_vec() } else { vec![*rng.pick(&batches)] };
                for b in sizes {
                    r.h.evals += 1;
                    let res = if by_stream { r.h.scan_stream(pid, &name, start, dir, b, 1_000_000) } else { r.h.scan_partition(pid, start, dir, b, 1_000_000) };
                    let what = if by_stream { "stream-scan" } else { "partition-scan" };
                    let dname = if matches!(dir, IterDirection::Forward) { "forward" } else { "reverse" };
                    match res {
                        Ok(batches_got) => {
                            if let Some((clause, d)) = check_scan(&all, by_stream, start, dir, &batches_got) {
                                let sshape = if start == u64::MAX { "start-max" } else if start > len { "start-beyond-end" } else { "start-inside" };
                                r.h.violation(clause, what, sshape, format!("{} {} start {start} batch {b} ({} events in model): {d}", if by_stream { name.as_str() } else { "partition" }, dname, len));
                            }
                        }
                        Err(e) => {
                            let cls = if e.contains("panic") { "panic" } else if e.contains("not found") { "event-not-found" } else if e.contains("crc") { "crc" } else if e.contains("truncation") { "marker" } else { "other" };
                            r.h.violation("scan-error", what, &format!("{dname}/{cls}"), format!("start {start} batch {b}: {e}"));
                        }
                    }
                }
            }
        }
    }
    let hits = sierradb::cache::SegmentBlockCache::cache_hits() - hits0;
    let misses = sierradb::cache::SegmentBlockCache::cache_misses() - miss0;
    if hits > 0 {
        r.h.probe("sweep_used_block_cache");
    }
    if misses > 0 {
        r.h.probe("sweep_missed_block_cache");
    }
    let held = r.h.gate.flush_outstanding() > 0;
    if held {
        r.h.probe("sweep_with_index_flush_pending");
    }
    let sealed = r.h.gate.lock().rollovers;
    // a multi-event transaction crossing a 64 KiB block boundary exists?
    let crossing = m.txns.iter().any(|t| t.events.len() > 1 && {
        let bytes: usize = t.events.iter().map(|&i| m.events[i].payload.len() + 100).sum();
        bytes > 65_536
    });
    let _ = fnv(b"");
    sealed >= 2 && crossing && hits > 0 && misses > 0
}

// ---------------------------------------------------------------------------------------
// C19: fill level steered between the estimated and the stored size of the next transaction
// ---------------------------------------------------------------------------------------

#[derive(Clone, Debug, Serialize, Deserialize)]
pub struct C19Plan {
    pub cfg: Cfg,
    pub target: AppendSpec,
    /// 0: free < min(estimated, stored); 1: between; 2: free >= max
    pub gap_mode: u8,
    pub seed: u64,
}

pub fn plan_c19(_tier: Tier, seed: u64) -> Value {
    let mut rng = Rng::new(seed);
    let mut cfg = gen_cfg(&mut rng, false);
    cfg.buckets = 1;
    cfg.writer_threads = 1;
    cfg.partitions = 1 + rng.below(2) as u16;
    cfg.pks = 1;
    cfg.streams = 4;
    cfg.segment_size = *rng.pick(&[131_072usize, 131_072, 163_840, 262_144]);
    // mostly 1-3 events; one plan in four is a long transaction (per-event overheads add up)
    let many = rng.chance(1, 4);
    let nev = if many { 8 + rng.usize_below(40) } else { 1 + rng.usize_below(3) };
    // payload entropy decides the relation between estimated and stored size
    let kind = if many { 2 } else { *rng.pick(&[0u8, 1, 2, 2, 2]) };
    if kind == 2 && rng.chance(2, 3) {
        cfg.compression = true; // incompressible payload + compression: stored > estimated
    }
    // one plan in six: records above the compression threshold that do not compress although their
    // payloads are below it (random metadata carries the bytes)
    let meta_heavy = !many && rng.chance(1, 6);
    let nev = if meta_heavy { 1 + rng.usize_below(2) } else { nev };
    if meta_heavy {
        cfg.compression = true;
    }
    let mut events = Vec::new();
    for i in 0..nev {
        if meta_heavy {
            let payload_len = rng.usize_below(128);
            let meta_len = 80 + rng.usize_below(400);
            events.push(EvSpec { stream: i % 4, exp: ExpSpec::Any, name_len: 1 + rng.usize_below(4), meta_len, payload_len, kind: 2, bad_ts: false, meta_kind: Some(2) });
            continue;
        }
        let payload_len = if many {
            // above the compression threshold, small enough for the whole transaction to fit
            130 + rng.usize_below(((cfg.segment_size - 4096) / nev).saturating_sub(400).clamp(1, 1500))
        } else { match rng.below(6) {
            0 => rng.usize_below(100),
            1 => 120 + rng.usize_below(20),
            2 => 1000 + rng.usize_below(3000),
            3 => 10_000 + rng.usize_below(20_000),
            4 => cfg.segment_size / (nev + 1),
            _ => (cfg.segment_size - 400) / nev - 200 - rng.usize_below(300),
        } };
        // (a long transaction is made of records that do not compress at all: no metadata, short names)
        let (name_len, meta_len) = if many { (1 + rng.usize_below(3), 0) } else { (1 + rng.usize_below(30), rng.usize_below(64)) };
        events.push(EvSpec { stream: i % 4, exp: ExpSpec::Any, name_len, meta_len, payload_len, kind, bad_ts: false, meta_kind: None });
    }
    let target = AppendSpec { pk: 0, events, seq: ExpSpec::Any, seed: rng.next_u64() >> 12, io_fail_at: None, io_fail_mid: false };
    let gap_mode = *rng.pick(&[0u8, 1, 1, 1, 2]);
    serde_json::to_value(C19Plan { cfg, target, gap_mode, seed: rng.next_u64() >> 12 }).unwrap()
}

pub fn run_c19(plan: &Value) -> RunOutcome {
    let plan: C19Plan = serde_json::from_value(plan.clone()).expect("plan");
    let mut h = Harness::new("C19", plan.cfg.clone());
    if let Err(e) = h.open() {
        h.violation("open-fails", "DatabaseBuilder::open", "fresh-dir", e);
        return h.finish(None, json!({"cfg": plan.cfg}), None);
    }
    let seg = plan.cfg.segment_size as u64;
    let mut rng = Rng::new(plan.seed);
    // 1. premise: a twin of the target (same sizes and contents, other streams/ids) is stored in an
    //    empty segment; its stored size is measured from the append hook records
    let mut twin = plan.target.clone();
    for e in &mut twin.events {
        e.stream += 100;
    }
    twin.seed ^= 0x5555;
    let twin_txn = h.concretise(&twin);
    let twin_estimated = crate::model::estimated_size(&twin_txn) as u64;
    let estimated = crate::model::estimated_size(&h.concretise(&plan.target)) as u64;
    let _ = h.gate.take_appended();
    let twin_res = h.append_blocking(&twin_txn);
    let appended = h.gate.take_appended();
    // the twin differs from the target only in the length of its stream names
    let stored: u64 = (appended.iter().map(|(_, l)| *l).sum::<u64>() + estimated).saturating_sub(twin_estimated);
    let fits_empty = matches!(twin_res, AppendOutcome::Ok(_)) && stored + 48 + 64 <= seg;
    if let AppendOutcome::Ok(_) = &twin_res {
        let _ = h.model.apply(&twin_txn);
    }
    if !fits_empty {
        // outside the statement (does not fit an empty segment, or the estimate rejects it)
        h.probe("target_does_not_fit_empty_segment");
        let sample = json!({"cfg": plan.cfg, "estimated": estimated, "stored": stored, "fits_empty": false});
        return h.finish(None, sample, None);
    }
    // 2. steer the fill level
    let (lo, hi) = (estimated.min(stored), estimated.max(stored));
    let want_free = |free: u64| -> bool {
        match plan.gap_mode {
            0 => free < lo,
            1 => free >= lo && free < hi,
            _ => free >= hi,
        }
    };
    let mut write_offset = appended.last().map(|(o, l)| o + l).unwrap_or(48);
    let mut filler_no = 0usize;
    let mut reached = false;
    let mut last_overhead: u64 = 200;
    for _ in 0..400 {
        let free = seg - write_offset;
        if want_free(free) {
            reached = true;
            break;
        }
        let target_free = match plan.gap_mode {
            0 => lo.saturating_sub(1 + rng.below(lo.min(200).max(1))),
            1 => lo + rng.below((hi - lo).max(1)),
            _ => break, // free < hi already and we cannot un-fill: give up on this mode
        };
        if free <= target_free {
            break;
        }
        let need = free - target_free;
        // far away: big steps; then stop ~500 B short; then one byte-precise filler whose
        // overhead (stored size minus payload length) was learned from the previous filler
        let payload_len = if need > 40_000 {
            30_000
        } else if need > 1200 {
            (need - 500 - last_overhead) as usize
        } else if need >= last_overhead {
            (need - last_overhead) as usize
        } else {
            break;
        };
        filler_no += 1;
        let spec = AppendSpec {
            pk: 0,
            events: vec![EvSpec { stream: 50 + filler_no % 3, exp: ExpSpec::Any, name_len: 1, meta_len: 0, payload_len, kind: 2, bad_ts: false, meta_kind: None }],
            seq: ExpSpec::Any,
            seed: rng.next_u64() >> 12,
            io_fail_at: None,
            io_fail_mid: false,
        };
        let txn = h.concretise(&spec);
        let before = h.gate.lock().rollovers;
        let _ = h.gate.take_appended();
        match h.append_blocking(&txn) {
            AppendOutcome::Ok(_) => {
                let _ = h.model.apply(&txn);
            }
            _ => break,
        }
        if h.gate.lock().rollovers > before {
            // overshot into a new segment: start steering again from there
            h.probe("filler_rolled_over");
        }
        if let Some((o, l)) = h.gate.take_appended().last() {
            write_offset = o + l;
            last_overhead = l.saturating_sub(payload_len as u64).max(100);
        }
    }
    let free = seg - write_offset;
    if want_free(free) {
        reached = true;
    }
    let zone = if free < lo { "free<min" } else if free < hi { "min<=free<max" } else { "free>=max" };
    h.probe(&format!("fill_level:{zone}:{}", if stored > estimated { "stored>estimated" } else { "stored<=estimated" }));
    h.fault(&format!("fill_level_steered:{zone}"));
    if plan.cfg.compression && plan.target.events.iter().all(|e| e.kind == 2 && e.payload_len < 128) {
        // records above the compression threshold whose payloads are below it
        h.probe(&format!("small_incompressible_payloads:{zone}:{}", if stored > estimated { "stored>estimated" } else { "stored<=estimated" }));
    }
    h.sched.push_str(zone);
    h.sched.push_u64(filler_no as u64);
    // 3. the target itself, with up to 5 identical attempts
    let txn = h.concretise(&plan.target);
    let mut accepted = None;
    let mut last_err = String::new();
    for attempt in 0..5 {
        h.evals += 1;
        match h.append_blocking(&txn) {
            AppendOutcome::Ok(res) => {
                accepted = Some((attempt, res));
                break;
            }
            AppendOutcome::Err(e) => last_err = format!("{e}"),
            AppendOutcome::Stuck => {
                last_err = "append never completed".into();
                break;
            }
        }
    }
    match accepted {
        Some((attempt, res)) => {
            if attempt > 0 {
                h.probe("accepted_on_retry");
            }
            let acc = h.model.apply(&txn).expect("model accepts");
            if let Some(d) = accept_matches(&acc, &res) {
                h.violation("wrong-positions", "append_events", "result", d);
            }
            let m = h.model.clone();
            h.check_txn_readable(&m, acc.txn_no, "after-steered-append");
        }
        None => {
            let shape = if stored > estimated { "stored>estimated" } else { "stored<=estimated" };
            h.violation("rejected-for-space", "append_events", &format!("{shape}/{zone}"), format!("transaction of estimated {estimated} B / stored {stored} B fits an empty {seg} B segment but 5 identical attempts failed with {free} B free: {last_err}"));
        }
    }
    let nontrivial = (zone == "min<=free<max").then(|| fnv(format!("{estimated}/{stored}/{free}/{}", plan.cfg.compression).as_bytes()));
    let sample = json!({"cfg": plan.cfg, "estimated": estimated, "stored": stored, "free_at_attempt": free, "zone": zone, "steering_reached_target_zone": reached, "fillers": filler_no, "events": plan.target.events.len()});
    h.finish(nontrivial, sample, None)
}
