//! Scratch directories on /dev/shm and silent panic capture.

use std::cell::RefCell;
use std::panic::{AssertUnwindSafe, catch_unwind};
use std::path::{Path, PathBuf};
use std::sync::Once;
use std::sync::atomic::{AtomicU64, Ordering};

static COUNTER: AtomicU64 = AtomicU64::new(0);

fn scratch_base() -> PathBuf {
    let shm = Path::new("/dev/shm");
    if shm.is_dir() { shm.to_path_buf() } else { std::env::temp_dir() }
}

/// Removes scratch directories left by dead processes.
pub fn reap_stale_scratch() {
    let Ok(rd) = std::fs::read_dir(scratch_base()) else { return };
    for e in rd.flatten() {
        let name = e.file_name();
        let Some(name) = name.to_str() else { continue };
        let Some(rest) = name.strip_prefix("verif-") else { continue };
        let pid: Option<u32> = rest.split('-').next().and_then(|p| p.parse().ok());
        if let Some(pid) = pid {
            if !Path::new(&format!("/proc/{pid}")).exists() {
                let _ = std::fs::remove_dir_all(e.path());
            }
        }
    }
}

pub struct Scratch {
    pub path: PathBuf,
}

impl Scratch {
    pub fn new(tag: &str) -> Scratch {
        let n = COUNTER.fetch_add(1, Ordering::Relaxed);
        let path = scratch_base().join(format!("verif-{}-{}-{}", std::process::id(), tag, n));
        let _ = std::fs::remove_dir_all(&path);
        std::fs::create_dir_all(&path).expect("create scratch dir");
        Scratch { path }
    }
    pub fn join(&self, p: &str) -> PathBuf {
        self.path.join(p)
    }
}

impl Drop for Scratch {
    fn drop(&mut self) {
        let _ = std::fs::remove_dir_all(&self.path);
    }
}

thread_local! {
    static LAST_PANIC: RefCell<Option<String>> = const { RefCell::new(None) };
}

static HOOK: Once = Once::new();

/// Installs a panic hook that records the message per thread and prints nothing for
/// panics caught by [`catch`]. Panics on other threads are still printed to stderr.
pub fn install_panic_hook() {
    HOOK.call_once(|| {
        std::panic::set_hook(Box::new(|info| {
            let msg = if let Some(s) = info.payload().downcast_ref::<&str>() {
                s.to_string()
            } else if let Some(s) = info.payload().downcast_ref::<String>() {
                s.clone()
            } else {
                "non-string panic payload".to_string()
            };
            let loc = info.location().map(|l| format!("{}:{}", l.file(), l.line())).unwrap_or_default();
            let full = format!("{msg} @ {loc}");
            let quiet = QUIET.with(|q| *q.borrow());
            if !quiet {
                eprintln!("panic on thread {:?}: {full}", std::thread::current().name());
            }
            LAST_PANIC.with(|p| *p.borrow_mut() = Some(full.clone()));
            GLOBAL_PANICS.lock().unwrap_or_else(|e| e.into_inner()).push(full);
        }));
    });
}

thread_local! {
    static QUIET: RefCell<bool> = const { RefCell::new(false) };
}

pub static GLOBAL_PANICS: std::sync::Mutex<Vec<String>> = std::sync::Mutex::new(Vec::new());

pub fn take_global_panics() -> Vec<String> {
    std::mem::take(&mut *GLOBAL_PANICS.lock().unwrap_or_else(|e| e.into_inner()))
}

/// Runs `f`, converting a panic into `Err(message @ location)`.
pub fn catch<T>(f: impl FnOnce() -> T) -> Result<T, String> {
    install_panic_hook();
    QUIET.with(|q| *q.borrow_mut() = true);
    let r = catch_unwind(AssertUnwindSafe(f));
    QUIET.with(|q| *q.borrow_mut() = false);
    match r {
        Ok(v) => Ok(v),
        Err(_) => {
            let msg = LAST_PANIC.with(|p| p.borrow_mut().take()).unwrap_or_else(|| "panic".into());
            // the hook also pushed it to the global list; drop that copy
            let mut g = GLOBAL_PANICS.lock().unwrap_or_else(|e| e.into_inner());
            if let Some(pos) = g.iter().rposition(|m| *m == msg) {
                g.remove(pos);
            }
            Err(msg)
        }
    }
}

/// Strips line numbers etc. so a panic site can be used inside a stable signature.
pub fn panic_site(msg: &str) -> String {
    // "... @ /repo/crates/seglog/src/parse.rs:74" -> "parse.rs"
    match msg.rsplit_once(" @ ") {
        Some((_, loc)) => {
            let file = loc.rsplit('/').next().unwrap_or(loc);
            file.split(':').next().unwrap_or(file).to_string()
        }
        None => "unknown".to_string(),
    }
}

/// Deterministic content generator for payloads.
pub fn gen_bytes(kind: u8, len: usize, seed: u64) -> Vec<u8> {
    match kind % 3 {
        0 => vec![0u8; len],
        1 => {
            const TEXT: &[u8] = b"the quick brown fox jumps over the lazy dog; event sourcing stores facts. ";
            let start = (seed as usize) % TEXT.len();
            (0..len).map(|i| TEXT[(start + i) % TEXT.len()]).collect()
        }
        _ => simcore::Rng::new(seed ^ 0xA5A5_5A5A).bytes(len),
    }
}

/// Raises the soft RLIMIT_NOFILE to the hard limit.
pub fn raise_fd_limit() {
    unsafe {
        let mut r = libc::rlimit { rlim_cur: 0, rlim_max: 0 };
        if libc::getrlimit(libc::RLIMIT_NOFILE, &mut r) == 0 && r.rlim_cur < r.rlim_max {
            r.rlim_cur = r.rlim_max;
            let _ = libc::setrlimit(libc::RLIMIT_NOFILE, &r);
        }
    }
}
