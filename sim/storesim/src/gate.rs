//! GateSim: the `seglog::verif::Sim` installed by storesim.
//!
//! * gates the store's writer threads and background index-flush jobs at hook points, so that
//!   exactly one of {simulator thread, one writer thread} makes progress at a time (baton);
//! * keeps the fsync ledger (durable image per file) that crash images are built from;
//! * owns the simulated monotonic and wall clocks;
//! * arms cooperative fault points (injected append I/O errors, iterator yield point).

use std::cell::Cell;
use std::collections::BTreeMap;
use std::os::unix::fs::FileExt;
use std::path::{Path, PathBuf};
use std::sync::atomic::{AtomicBool, AtomicU64, Ordering};
use std::sync::{Arc, Condvar, Mutex, MutexGuard, OnceLock};
use std::task::Wake;
use std::time::Duration;

use seglog::verif::{Action, Sim};
use simcore::Chain;

#[derive(Clone, Copy, Debug, PartialEq, Eq)]
pub enum Mode {
    /// Points record but never block.
    Free,
    /// Writer threads park at every `writer:*` point until granted.
    Gated,
    /// Everything is ignored (used while a throw-away image database is being inspected).
    Passthrough,
}

#[derive(Clone, Copy, Debug, PartialEq, Eq)]
enum Role {
    Writer(u64),
    Flusher,
    Reader,
    Other,
}

thread_local! {
    static ROLE: Cell<Option<Role>> = const { Cell::new(None) };
}

fn role() -> Role {
    ROLE.with(|r| {
        if let Some(x) = r.get() {
            return x;
        }
        let t = std::thread::current();
        let name = t.name().unwrap_or("");
        let x = if let Some(n) = name.strip_prefix("writer-") {
            n.parse::<u64>().map(Role::Writer).unwrap_or(Role::Other)
        } else if name.starts_with("flusher-") {
            Role::Flusher
        } else if name.starts_with("reader-") {
            Role::Reader
        } else {
            Role::Other
        };
        r.set(Some(x));
        x
    })
}

#[derive(Clone, Debug, Default)]
pub struct WState {
    pub parked: Option<&'static str>,
    pub a: u64,
    pub b: u64,
    pub granted: bool,
    pub arrivals: u64,
    pub queue: i64,
    pub busy: bool,
    pub dequeues: u64,
}

#[derive(Clone, Debug, Default)]
pub struct Durable {
    pub image: Vec<u8>,
    pub dirty_from: u64,
    /// write offset covered by the last `Writer::sync`
    pub synced_upto: u64,
    pub fsyncs: u64,
}

#[derive(Clone, Debug)]
pub struct FailSpec {
    pub site: &'static str,
    /// fail the n-th arrival (0 = next)
    pub countdown: u32,
}

#[derive(Default)]
pub struct Inner {
    pub mode_gated: bool,
    pub passthrough: bool,
    pub epoch: u64,
    pub writers: BTreeMap<u64, WState>,
    pub reader_inflight: i64,
    pub flush_hold: bool,
    /// a client future is being polled: reader jobs it spawns start only after the poll returned, so
    /// that whether the poll already sees the job's answer does not depend on thread timing
    pub client_polling: bool,
    /// the store's own syncer thread runs its real loop; its sleep is a point where it parks until the
    /// scheduler's timer fires (otherwise the thread returns at once and the harness sends FlushPoll)
    pub real_syncer: bool,
    pub syncer_active: bool,
    pub syncer_parked: bool,
    pub syncer_grant: bool,
    pub syncer_stop: bool,
    pub syncer_sleep_ns: u64,
    pub syncer_iterations: u64,
    pub syncer_starts: u64,
    pub syncer_note: String,
    pub flush_parked: u32,
    pub flush_outstanding: i64,
    pub flush_started: u64,
    pub ledger: BTreeMap<PathBuf, Durable>,
    pub fail: Option<FailSpec>,
    pub fails_fired: u64,
    pub yield_iter: u32,
    pub yields_fired: u64,
    /// (offset, len) of seglog appends since the last `take_appended`
    pub appended: Vec<(u64, u64)>,
    /// (bucket, offset) published by sync since last take
    pub published: Vec<(u64, u64)>,
    pub rollovers: u64,
    pub chain: Chain,
    pub sites: BTreeMap<&'static str, u64>,
    /// newest segment file created per bucket (parsed from the path)
    pub created: Vec<PathBuf>,
    pub activity: bool,
    pub fsync_total: u64,
}

pub struct GateSim {
    inner: Mutex<Inner>,
    cv: Condvar,
    pub mono: AtomicU64,
    pub wall: AtomicU64,
    pub clocks_on: AtomicBool,
}

static GATE: OnceLock<Arc<GateSim>> = OnceLock::new();

pub fn gate() -> Arc<GateSim> {
    GATE.get_or_init(|| {
        let g = Arc::new(GateSim {
            inner: Mutex::new(Inner::default()),
            cv: Condvar::new(),
            mono: AtomicU64::new(0),
            wall: AtomicU64::new(WALL_START),
            clocks_on: AtomicBool::new(false),
        });
        seglog::verif::install(g.clone());
        g
    })
    .clone()
}

pub const WALL_START: u64 = 1_700_000_000_000_000_000;

fn fd_path(fd: u64) -> Option<PathBuf> {
    std::fs::read_link(format!("/proc/self/fd/{fd}")).ok()
}

fn read_region(path: &Path, lo: u64, hi: u64, image: &mut Vec<u8>) {
    if hi <= lo {
        return;
    }
    let Ok(f) = std::fs::File::open(path) else { return };
    let flen = f.metadata().map(|m| m.len()).unwrap_or(0);
    let hi = hi.min(flen);
    if hi <= lo {
        return;
    }
    if (image.len() as u64) < hi {
        image.resize(hi as usize, 0);
    }
    let _ = f.read_exact_at(&mut image[lo as usize..hi as usize], lo);
}

const STUCK: Duration = Duration::from_secs(30);

impl GateSim {
    pub fn lock(&self) -> MutexGuard<'_, Inner> {
        self.inner.lock().unwrap_or_else(|e| e.into_inner())
    }

    pub fn notify(&self) {
        self.cv.notify_all();
    }

    /// Starts a new run: wakes anything still parked from an earlier run and clears all state.
    pub fn reset(&self) {
        let mut g = self.lock();
        let epoch = g.epoch + 1;
        *g = Inner::default();
        g.epoch = epoch;
        g.chain = Chain::new();
        self.mono.store(0, Ordering::SeqCst);
        self.wall.store(WALL_START, Ordering::SeqCst);
        self.clocks_on.store(true, Ordering::SeqCst);
        drop(g);
        self.cv.notify_all();
    }

    pub fn set_mode(&self, mode: Mode) {
        let mut g = self.lock();
        match mode {
            Mode::Free => {
                g.mode_gated = false;
                g.passthrough = false;
            }
            Mode::Gated => {
                g.mode_gated = true;
                g.passthrough = false;
            }
            Mode::Passthrough => g.passthrough = true,
        }
        drop(g);
        self.cv.notify_all();
    }

    pub fn end_passthrough(&self) {
        self.lock().passthrough = false;
    }

    /// Forgets the writer threads of a database that has been shut down.
    pub fn clear_writers(&self) {
        let mut g = self.lock();
        g.writers.clear();
        g.reader_inflight = 0;
    }

    pub fn syncer_starts(&self) -> u64 {
        self.lock().syncer_starts
    }

    /// Waits until the syncer thread of the store that was just opened has reported.
    pub fn wait_syncer_started(&self, before: u64) {
        let mut g = self.lock();
        let start = std::time::Instant::now();
        while g.syncer_starts <= before {
            let (ng, _) = self.cv.wait_timeout(g, Duration::from_millis(5)).unwrap_or_else(|e| e.into_inner());
            g = ng;
            if start.elapsed() > STUCK {
                panic!("simulation stuck: the syncer thread of a freshly opened store never started");
            }
        }
    }

    pub fn set_real_syncer(&self, on: bool) {
        self.lock().real_syncer = on;
    }

    pub fn real_syncer_active(&self) -> bool {
        let g = self.lock();
        g.real_syncer && g.syncer_active
    }

    /// The store is being closed: the parked syncer thread leaves its loop.
    pub fn stop_syncer(&self) {
        let mut g = self.lock();
        if !g.syncer_active {
            return;
        }
        g.syncer_stop = true;
        self.cv.notify_all();
        let start = std::time::Instant::now();
        while g.syncer_active {
            let (ng, _) = self.cv.wait_timeout(g, Duration::from_millis(5)).unwrap_or_else(|e| e.into_inner());
            g = ng;
            if start.elapsed() > STUCK {
                panic!("simulation stuck: the syncer thread does not stop");
            }
        }
        g.syncer_stop = false;
    }

    /// One iteration of the real syncer loop: the clock moves past its sleep, the thread runs until
    /// it sleeps again. `None`: no real syncer thread is parked (the caller sends FlushPoll itself);
    /// `Some(false)`: the syncer thread left its loop although the store is open.
    pub fn syncer_tick(&self) -> Option<bool> {
        let mut g = self.lock();
        let start = std::time::Instant::now();
        while g.syncer_active && !g.syncer_parked {
            let (ng, _) = self.cv.wait_timeout(g, Duration::from_millis(5)).unwrap_or_else(|e| e.into_inner());
            g = ng;
            if start.elapsed() > STUCK {
                panic!("simulation stuck: the syncer thread does not reach its sleep");
            }
        }
        if !g.syncer_active {
            return None;
        }
        let ns = g.syncer_sleep_ns;
        let before = g.syncer_iterations;
        drop(g);
        self.advance(ns);
        let mut g = self.lock();
        g.syncer_grant = true;
        self.cv.notify_all();
        let mut waited = 0u32;
        while g.syncer_active && (g.syncer_iterations == before || !g.syncer_parked) {
            let (ng, _) = self.cv.wait_timeout(g, Duration::from_millis(2)).unwrap_or_else(|e| e.into_inner());
            g = ng;
            waited += 1;
            if waited % 10 == 0 && g.syncer_iterations != before && !syncer_thread_exists() {
                // it consumed the grant and is gone: its poll list became empty
                g.syncer_active = false;
                g.syncer_parked = false;
                return Some(false);
            }
            if start.elapsed() > STUCK {
                panic!("simulation stuck: the syncer thread does not come back to its sleep (iterations {} before {}; {})", g.syncer_iterations, before, thread_states());
            }
        }
        Some(true)
    }

    /// Sets a writer's queue length from the channel itself (after a real syncer tick).
    pub fn set_writer_queue(&self, id: u64, len: i64) {
        let mut g = self.lock();
        let w = g.writers.entry(id).or_default();
        if len > w.queue {
            g.activity = true;
        }
        let w = g.writers.entry(id).or_default();
        w.queue = len;
        drop(g);
        self.cv.notify_all();
    }

    pub fn set_client_polling(&self, on: bool) {
        self.lock().client_polling = on;
        self.cv.notify_all();
    }

    pub fn set_flush_hold(&self, hold: bool) {
        self.lock().flush_hold = hold;
        self.cv.notify_all();
    }

    /// Lets every pending background index flush run to completion.
    pub fn release_flush_jobs(&self) {
        let mut g = self.lock();
        let was = g.flush_hold;
        g.flush_hold = false;
        self.cv.notify_all();
        let start = std::time::Instant::now();
        while g.flush_outstanding > 0 {
            let (ng, _) = self.cv.wait_timeout(g, Duration::from_millis(20)).unwrap_or_else(|e| e.into_inner());
            g = ng;
            if start.elapsed() > STUCK {
                panic!("simulation stuck waiting for flush jobs: outstanding {}", g.flush_outstanding);
            }
        }
        g.flush_hold = was;
    }

    pub fn flush_outstanding(&self) -> i64 {
        self.lock().flush_outstanding
    }

    pub fn advance(&self, nanos: u64) {
        self.mono.fetch_add(nanos, Ordering::SeqCst);
        self.wall.fetch_add(nanos, Ordering::SeqCst);
    }

    pub fn wall_jump(&self, delta: i64) {
        if delta >= 0 {
            self.wall.fetch_add(delta as u64, Ordering::SeqCst);
        } else {
            self.wall.fetch_sub((-delta) as u64, Ordering::SeqCst);
        }
    }

    pub fn now(&self) -> u64 {
        self.mono.load(Ordering::SeqCst)
    }

    /// Everything present in a directory when a database is opened on it is durable by construction.
    pub fn adopt_dir(&self, dir: &Path) {
        let mut files = Vec::new();
        collect_files(dir, &mut files);
        let mut g = self.lock();
        for f in files {
            if f.file_name().and_then(|n| n.to_str()) == Some("data.evts") {
                let image = std::fs::read(&f).unwrap_or_default();
                // trailing zeros carry no information; keep the image short
                let used = image.iter().rposition(|&b| b != 0).map(|p| p + 1).unwrap_or(0);
                let mut image = image;
                image.truncate(used);
                g.ledger.insert(f, Durable { dirty_from: 0, synced_upto: used as u64, image, fsyncs: 0 });
            }
        }
    }

    pub fn durable(&self, path: &Path) -> Option<Durable> {
        self.lock().ledger.get(path).cloned()
    }

    pub fn take_appended(&self) -> Vec<(u64, u64)> {
        std::mem::take(&mut self.lock().appended)
    }

    pub fn arm_fail(&self, site: &'static str, countdown: u32) {
        self.lock().fail = Some(FailSpec { site, countdown });
    }

    pub fn disarm_fail(&self) -> bool {
        self.lock().fail.take().is_some()
    }

    pub fn arm_iter_yield(&self, n: u32) {
        self.lock().yield_iter = n;
    }

    pub fn wait_readers_idle(&self) {
        let mut g = self.lock();
        let start = std::time::Instant::now();
        while g.reader_inflight > 0 {
            let (ng, _) = self.cv.wait_timeout(g, Duration::from_millis(20)).unwrap_or_else(|e| e.into_inner());
            g = ng;
            if start.elapsed() > STUCK {
                panic!("simulation stuck waiting for reader jobs: inflight {}", g.reader_inflight);
            }
        }
    }

    /// True when no writer is processing or has queued work, and no reader job is in flight.
    pub fn quiescent(&self, g: &Inner) -> bool {
        g.reader_inflight <= 0 && g.writers.values().all(|w| !w.busy && w.queue <= 0)
    }

    /// Blocks until `flag` is set or the store is quiescent (Free mode). Returns true if flag set.
    pub fn wait_flag_or_quiescent(&self, flag: &Flag) -> bool {
        let mut g = self.lock();
        let start = std::time::Instant::now();
        loop {
            if flag.is_set() {
                return true;
            }
            if self.quiescent(&g) {
                // give a just-finished reply a chance to have set the flag
                return flag.is_set();
            }
            let (ng, _) = self.cv.wait_timeout(g, Duration::from_millis(5)).unwrap_or_else(|e| e.into_inner());
            g = ng;
            if start.elapsed() > STUCK {
                panic!("simulation stuck waiting for a reply: writers {:?} readers {}", g.writers, g.reader_inflight);
            }
        }
    }

    /// Writer ids that may be given the baton: parked inside an operation, or idle with queued work.
    pub fn enabled_writers(&self) -> Vec<u64> {
        let g = self.lock();
        g.writers
            .iter()
            .filter(|(_, w)| match w.parked {
                Some("writer:idle") => w.queue > 0,
                Some(_) => true,
                None => false,
            })
            .map(|(id, _)| *id)
            .collect()
    }

    pub fn writer_state(&self, id: u64) -> Option<WState> {
        self.lock().writers.get(&id).cloned()
    }

    /// Waits until every writer thread of the current database is parked (Gated mode).
    pub fn wait_all_parked(&self, n: usize) {
        let mut g = self.lock();
        let start = std::time::Instant::now();
        loop {
            let parked = g.writers.values().filter(|w| w.parked.is_some()).count();
            if g.writers.len() >= n && parked == g.writers.len() {
                return;
            }
            let (ng, _) = self.cv.wait_timeout(g, Duration::from_millis(5)).unwrap_or_else(|e| e.into_inner());
            g = ng;
            if start.elapsed() > STUCK {
                panic!("simulation stuck waiting for writers to park: {:?}", g.writers);
            }
        }
    }

    /// Hands the baton to writer `id` and waits until it parks at its next point.
    /// Returns the site it parked at.
    pub fn step_writer(&self, id: u64) -> &'static str {
        match self.step_writer_timeout(id, STUCK) {
            Some(site) => site,
            None => panic!("simulation stuck: writer {id} did not reach its next point: {:?}", self.lock().writers.get(&id)),
        }
    }

    /// Like `step_writer`, but gives up after `timeout`: the writer is then blocked on something only
    /// another entity can release (e.g. the live-index lock granted to a client task that has not been
    /// polled yet). `wait_writer_parked` picks it up again later.
    pub fn step_writer_timeout(&self, id: u64, timeout: Duration) -> Option<&'static str> {
        let mut g = self.lock();
        {
            let w = g.writers.get_mut(&id).expect("unknown writer");
            assert!(w.parked.is_some(), "writer {id} is not parked");
            w.granted = true;
        }
        self.cv.notify_all();
        drop(g);
        self.wait_writer_parked(id, timeout)
    }

    /// Waits until writer `id` is parked at a point (and not granted).
    pub fn wait_writer_parked(&self, id: u64, timeout: Duration) -> Option<&'static str> {
        let mut g = self.lock();
        let start = std::time::Instant::now();
        loop {
            if let Some(w) = g.writers.get(&id) {
                if w.parked.is_some() && !w.granted {
                    return w.parked;
                }
            }
            let (ng, _) = self.cv.wait_timeout(g, Duration::from_millis(2)).unwrap_or_else(|e| e.into_inner());
            g = ng;
            if start.elapsed() > timeout {
                // Slow or blocked? Real time says nothing under load. The writer is blocked (on a
                // lock another entity must release) only if no other thread of this process is
                // running or runnable: then nothing can bring it to its next hook point.
                drop(g);
                let mut idle_samples = 0;
                for _ in 0..4 {
                    if other_threads_all_sleeping() {
                        idle_samples += 1;
                    } else {
                        break;
                    }
                    std::thread::sleep(Duration::from_millis(1));
                }
                g = self.lock();
                if idle_samples == 4 {
                    if let Some(w) = g.writers.get(&id) {
                        if w.parked.is_some() && !w.granted {
                            return w.parked;
                        }
                    }
                    return None;
                }
                if start.elapsed() > STUCK {
                    panic!("simulation stuck: writer {id} neither parks nor blocks");
                }
            }
        }
    }

    /// Writers that hold the baton but are not parked (running or blocked).
    pub fn unparked_writers(&self) -> Vec<u64> {
        self.lock().writers.iter().filter(|(_, w)| w.parked.is_none() && w.busy).map(|(i, _)| *i).collect()
    }

    fn gate_writer(&self, mut g: MutexGuard<'_, Inner>, id: u64, site: &'static str, a: u64, b: u64) {
        let epoch = g.epoch;
        {
            let w = g.writers.entry(id).or_default();
            w.parked = Some(site);
            w.a = a;
            w.b = b;
            w.arrivals += 1;
        }
        self.cv.notify_all();
        loop {
            if g.epoch != epoch || !g.mode_gated {
                break;
            }
            if g.writers.get(&id).map(|w| w.granted).unwrap_or(true) {
                break;
            }
            g = self.cv.wait(g).unwrap_or_else(|e| e.into_inner());
        }
        if g.epoch == epoch {
            if let Some(w) = g.writers.get_mut(&id) {
                w.granted = false;
                w.parked = None;
            }
        }
    }

    fn ledger_event(&self, g: &mut Inner, site: &'static str, fd: u64, b: u64) {
        let Some(path) = fd_path(fd) else { return };
        if path.file_name().and_then(|n| n.to_str()) != Some("data.evts") {
            // engine B scratch files and anything else: ledger by path as well
        }
        g.fsync_total += 1;
        let d = g.ledger.entry(path.clone()).or_default();
        d.fsyncs += 1;
        match site {
            "fsync:create" => {
                read_region(&path, 0, 64, &mut d.image);
                d.dirty_from = d.dirty_from.max(48);
                d.synced_upto = d.synced_upto.max(48);
                g.created.push(path);
            }
            "fsync" => {
                let lo = d.dirty_from.min(b);
                read_region(&path, lo, b, &mut d.image);
                d.dirty_from = b;
                d.synced_upto = b;
            }
            "fsync:marker" => {
                // set_len zeroes the whole truncated range (at least one record head)
                let hi = (d.image.len() as u64).max(b + 8);
                read_region(&path, b, hi, &mut d.image);
                d.dirty_from = b;
                d.synced_upto = b;
            }
            "fsync:header" => {
                read_region(&path, b, b + 8 + 32, &mut d.image);
            }
            _ => {}
        }
    }
}

fn collect_files(dir: &Path, out: &mut Vec<PathBuf>) {
    let Ok(rd) = std::fs::read_dir(dir) else { return };
    let mut entries: Vec<_> = rd.flatten().map(|e| e.path()).collect();
    entries.sort();
    for p in entries {
        if p.is_dir() {
            collect_files(&p, out);
        } else {
            out.push(p);
        }
    }
}

pub fn list_files(dir: &Path) -> Vec<PathBuf> {
    let mut v = Vec::new();
    collect_files(dir, &mut v);
    v
}

impl Sim for GateSim {
    fn point(&self, site: &'static str, a: u64, b: u64) -> Action {
        // engine B: intra-operation windows run a reader operation inline
        if matches!(site, "seglog:set_len:lowered" | "fsync" | "seglog:sync:raised") && crate::seglogsim::window_hook(site, b) {
            return Action::Continue;
        }
        let role = role();
        let mut g = self.lock();
        if site == "syncer:start" {
            // every store's syncer thread reports here once, right after it was spawned; the harness
            // waits for that inside open(), so a late-starting thread of an already closed store can
            // never be taken for the current store's
            g.syncer_starts += 1;
            self.cv.notify_all();
        }
        if g.passthrough {
            return Action::Continue;
        }
        *g.sites.entry(site).or_default() += 1;
        match site {
            "fsync" | "fsync:marker" | "fsync:header" | "fsync:create" => {
                self.ledger_event(&mut g, site, a, b);
                Action::Continue
            }
            "seglog:append:io" | "seglog:append:io:mid" => {
                if let Some(f) = &mut g.fail {
                    if f.site == site {
                        if f.countdown == 0 {
                            g.fail = None;
                            g.fails_fired += 1;
                            return Action::Fail;
                        }
                        f.countdown -= 1;
                    }
                }
                Action::Continue
            }
            "seglog:appended" => {
                g.appended.push((a, b));
                Action::Continue
            }
            "client:sent" => {
                let w = g.writers.entry(a).or_default();
                w.queue += 1;
                g.activity = true;
                drop(g);
                self.cv.notify_all();
                Action::Continue
            }
            "reader:job+" => {
                g.reader_inflight += 1;
                Action::Continue
            }
            "syncer:start" => {
                let tid = unsafe { libc::syscall(libc::SYS_gettid) };
                let note = format!("[start tid {tid} real {} active {}]", g.real_syncer, g.syncer_active);
                g.syncer_note.push_str(&note);
                if g.real_syncer && !g.passthrough && !g.syncer_active {
                    g.syncer_active = true;
                    SYNCER_EPOCH.with(|e| e.set(g.epoch));
                    Action::Yield
                } else {
                    Action::Continue
                }
            }
            "syncer:sleep" => {
                let epoch = g.epoch;
                let tid = unsafe { libc::syscall(libc::SYS_gettid) };
                let note = format!("[sleep tid {tid} a {a} stop {} grant {}]", g.syncer_stop, g.syncer_grant);
                g.syncer_note.push_str(&note);
                if SYNCER_EPOCH.with(|e| e.get()) != epoch {
                    // a thread of an earlier run's store: it has nothing to do with this run
                    g.syncer_note.push_str(&format!("[stale thread epoch {} now {}]", SYNCER_EPOCH.with(|e| e.get()), epoch));
                    return Action::Fail;
                }
                g.syncer_parked = true;
                g.syncer_sleep_ns = a;
                self.cv.notify_all();
                while !g.syncer_grant && !g.syncer_stop && g.epoch == epoch {
                    g = self.cv.wait(g).unwrap_or_else(|e| e.into_inner());
                }
                if g.epoch != epoch {
                    return Action::Fail;
                }
                g.syncer_parked = false;
                if g.syncer_stop {
                    g.syncer_active = false;
                    self.cv.notify_all();
                    return Action::Fail;
                }
                g.syncer_grant = false;
                g.syncer_iterations += 1;
                Action::Continue
            }
            "reader:job:start" => {
                let epoch = g.epoch;
                while g.client_polling && g.epoch == epoch {
                    g = self.cv.wait(g).unwrap_or_else(|e| e.into_inner());
                }
                Action::Continue
            }
            "reader:job-" => {
                g.reader_inflight -= 1;
                drop(g);
                self.cv.notify_all();
                Action::Continue
            }
            "flush:start" => {
                g.flush_started += 1;
                let epoch = g.epoch;
                if g.flush_hold {
                    g.flush_parked += 1;
                    self.cv.notify_all();
                    while g.flush_hold && g.epoch == epoch {
                        g = self.cv.wait(g).unwrap_or_else(|e| e.into_inner());
                    }
                    if g.epoch == epoch {
                        g.flush_parked -= 1;
                    }
                }
                Action::Continue
            }
            "flush:done" => {
                g.flush_outstanding -= 1;
                drop(g);
                self.cv.notify_all();
                Action::Continue
            }
            "iter:after_segment_id" => {
                if g.yield_iter > 0 {
                    g.yield_iter -= 1;
                    g.yields_fired += 1;
                    Action::Yield
                } else {
                    Action::Continue
                }
            }
            _ if site.starts_with("writer:") => {
                let Role::Writer(id) = role else { return Action::Continue };
                match site {
                    "writer:idle" => {
                        let w = g.writers.entry(id).or_default();
                        w.busy = false;
                    }
                    "writer:dequeued" => {
                        let w = g.writers.entry(id).or_default();
                        w.queue -= 1;
                        w.busy = true;
                        w.dequeues += 1;
                    }
                    "writer:rollover:swapped" => {
                        g.flush_outstanding += 3;
                        g.rollovers += 1;
                    }
                    "writer:sync:published" => {
                        g.published.push((a, b));
                    }
                    _ => {}
                }
                if g.mode_gated && site != "writer:sync:published" {
                    self.gate_writer(g, id, site, a, b);
                } else {
                    drop(g);
                    self.cv.notify_all();
                }
                Action::Continue
            }
            _ => Action::Continue,
        }
    }

    fn mono_nanos(&self) -> Option<u64> {
        if self.clocks_on.load(Ordering::Relaxed) { Some(self.mono.load(Ordering::SeqCst)) } else { None }
    }

    fn wall_nanos(&self) -> Option<u64> {
        if self.clocks_on.load(Ordering::Relaxed) { Some(self.wall.load(Ordering::SeqCst)) } else { None }
    }
}

/// Waker flag for the hand-rolled executor.
pub struct Flag {
    set: AtomicBool,
    gate: Arc<GateSim>,
}

impl Flag {
    pub fn new(gate: Arc<GateSim>) -> Arc<Flag> {
        Arc::new(Flag { set: AtomicBool::new(true), gate })
    }
    pub fn is_set(&self) -> bool {
        self.set.load(Ordering::SeqCst)
    }
    pub fn take(&self) -> bool {
        self.set.swap(false, Ordering::SeqCst)
    }
}

impl Wake for Flag {
    fn wake(self: Arc<Self>) {
        self.wake_by_ref()
    }
    fn wake_by_ref(self: &Arc<Self>) {
        self.set.store(true, Ordering::SeqCst);
        // take the lock briefly so a waiter between its check and its wait cannot miss this
        drop(self.gate.lock());
        self.gate.notify();
    }
}

thread_local! {
    /// the run (epoch) in which this thread became the real syncer thread
    static SYNCER_EPOCH: std::cell::Cell<u64> = const { std::cell::Cell::new(u64::MAX) };
}

/// True when every thread of this process except the caller is sleeping (state S/T/Z in
/// /proc/self/task/<tid>/stat): nobody is running, runnable or in disk wait.
pub fn other_threads_all_sleeping() -> bool {
    let me = unsafe { libc::syscall(libc::SYS_gettid) } as i64;
    let Ok(rd) = std::fs::read_dir("/proc/self/task") else { return false };
    for e in rd.flatten() {
        let name = e.file_name();
        let Some(tid) = name.to_str().and_then(|s| s.parse::<i64>().ok()) else { continue };
        if tid == me {
            continue;
        }
        let Ok(stat) = std::fs::read_to_string(e.path().join("stat")) else { continue };
        // pid (comm) state ... ; comm may contain spaces and parentheses: take what follows the last ')'
        let Some(pos) = stat.rfind(')') else { continue };
        let state = stat[pos + 1..].trim_start().chars().next().unwrap_or('S');
        if matches!(state, 'R' | 'D') {
            return false;
        }
    }
    true
}

/// "name:state" of every thread of this process (diagnostics for stuck simulations).
pub fn thread_states() -> String {
    let mut out = Vec::new();
    if let Ok(rd) = std::fs::read_dir("/proc/self/task") {
        for e in rd.flatten() {
            let comm = std::fs::read_to_string(e.path().join("comm")).unwrap_or_default();
            let stat = std::fs::read_to_string(e.path().join("stat")).unwrap_or_default();
            let state = stat.rfind(')').map(|p| stat[p + 1..].trim_start().chars().next().unwrap_or('?')).unwrap_or('?');
            let wchan = std::fs::read_to_string(e.path().join("wchan")).unwrap_or_default();
            out.push(format!("{}:{}:{}", comm.trim(), state, wchan.trim()));
        }
    }
    out.join(" ")
}

/// A thread named like the store's syncer thread exists in this process.
pub fn syncer_thread_exists() -> bool {
    let Ok(rd) = std::fs::read_dir("/proc/self/task") else { return true };
    for e in rd.flatten() {
        if let Ok(comm) = std::fs::read_to_string(e.path().join("comm")) {
            if comm.trim().starts_with("writer-pool-syn") {
                return true;
            }
        }
    }
    false
}
