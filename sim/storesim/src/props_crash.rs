//! Engine A, crash-state enumeration: C05 (every byte cut of the unsynced tail of the live
//! segment, per crash instant) and C06 (every state of a sealed segment's three index files).

use std::collections::{BTreeMap, BTreeSet};
use std::path::{Path, PathBuf};
use std::task::{Context, Poll};

use serde::{Deserialize, Serialize};
use serde_json::{Value, json};
use sierradb::IterDirection;
use sierradb::bucket::segment::EventRecord;
use sierradb::error::WriteError;
use sierradb::writer_thread_pool::AppendResult;
use simcore::runner::Tier;
use simcore::{Rng, RunOutcome, fnv};

use crate::dbsim::*;
use crate::gate::{Flag, list_files};
use crate::model::{MEvent, Model, Txn};
use crate::props_seq::{Mix, gen_append, gen_cfg, short_op};

#[derive(Clone, Debug, Serialize, Deserialize)]
#[serde(tag = "op")]
pub enum COp {
    /// submit an append without waiting for its acknowledgement
    Submit(AppendSpec),
    /// one simulated syncer tick
    Tick,
    /// enumerate crash images at this instant
    Crash { seed: u64, max_cuts: usize },
    /// clean reopen (all pending appends are awaited first)
    Reopen,
}

#[derive(Clone, Debug, Serialize, Deserialize)]
pub struct CrashPlan {
    pub cfg: Cfg,
    pub ops: Vec<COp>,
}

pub fn plan_c05(tier: Tier, seed: u64) -> Value {
    let mut rng = Rng::new(seed);
    let mut cfg = gen_cfg(&mut rng, true);
    cfg.buckets = *rng.pick(&[1u16, 1, 2]);
    cfg.writer_threads = 1;
    cfg.partitions = cfg.buckets * (1 + rng.below(2) as u16);
    // sync policies that leave an unsynced tail
    let sync = match rng.below(4) {
        0 => (5_000, 50_000, 1_000_000, usize::MAX / 2), // timer only
        1 => (1_000_000, 2_000_000, 1_000_000, 16_384),  // by bytes
        2 => (1_000_000, 2_000_000, 6, usize::MAX / 2),  // by events
        _ => (5_000, 50_000, 50, 4096),                  // shipped defaults
    };
    cfg.sync_interval_us = sync.0;
    cfg.sync_idle_us = sync.1;
    cfg.max_batch = sync.2;
    cfg.min_sync_bytes = sync.3;
    let n = 5 + rng.below(match tier { Tier::Quick => 20, Tier::Thorough => 36 });
    let crashes = match tier { Tier::Quick => 2, Tier::Thorough => 4 };
    let max_cuts = match tier { Tier::Quick => 96, Tier::Thorough => 1_500 };
    let mix = Mix { wrong_expect: 8, conflict: 2, oversized: 3, bad_ts: 5, io_fail: 0, multi: 55, big_bias: 1, max_events: 4 };
    let mut ops = Vec::new();
    let crash_at: BTreeSet<u64> = (0..crashes).map(|_| 2 + rng.below(n.max(3) - 1)).collect();
    for i in 0..n {
        let mut a = gen_append(&mut rng, &cfg, &mix);
        // small records so that several transactions sit in the unsynced tail
        for e in &mut a.events {
            if e.payload_len > 3000 && rng.chance(3, 4) {
                e.payload_len = rng.usize_below(700);
            }
        }
        ops.push(COp::Submit(a));
        if rng.chance(1, 6) {
            ops.push(COp::Tick);
        }
        if rng.chance(1, 25) {
            ops.push(COp::Reopen);
        }
        if crash_at.contains(&i) {
            ops.push(COp::Crash { seed: rng.next_u64() >> 12, max_cuts });
        }
    }
    ops.push(COp::Crash { seed: rng.next_u64() >> 12, max_cuts });
    serde_json::to_value(CrashPlan { cfg, ops }).unwrap()
}

pub fn plan_c06(tier: Tier, seed: u64) -> Value {
    let mut rng = Rng::new(seed);
    let mut cfg = gen_cfg(&mut rng, false);
    cfg.buckets = *rng.pick(&[1u16, 1, 2]);
    cfg.writer_threads = 1;
    cfg.partitions = cfg.buckets * (1 + rng.below(2) as u16);
    cfg.segment_size = 131_072;
    let rollovers_wanted = 1 + rng.below(match tier { Tier::Quick => 2, Tier::Thorough => 4 });
    let max_cuts = match tier { Tier::Quick => 60, Tier::Thorough => 400 };
    let mix = Mix { wrong_expect: 5, conflict: 0, oversized: 0, bad_ts: 0, io_fail: 0, multi: 40, big_bias: 30, max_events: 3 };
    let mut ops = Vec::new();
    // enough data for the wanted number of rollovers (about a third of a segment per big append)
    let n = 6 * rollovers_wanted + 4 + rng.below(6);
    for i in 0..n {
        ops.push(COp::Submit(gen_append(&mut rng, &cfg, &mix)));
        if i % 4 == 3 {
            ops.push(COp::Crash { seed: rng.next_u64() >> 12, max_cuts });
        }
    }
    ops.push(COp::Crash { seed: rng.next_u64() >> 12, max_cuts });
    serde_json::to_value(CrashPlan { cfg, ops }).unwrap()
}

struct Pending {
    txn: Txn,
    fut: BoxFut<Result<AppendResult, WriteError>>,
    flag: std::sync::Arc<Flag>,
    waker: std::task::Waker,
}

struct CrashRun {
    h: Harness,
    pending: Vec<Pending>,
    /// accepted transactions in write order: (model txn no, bucket, acked)
    written: Vec<(usize, u16, bool)>,
    streams: BTreeMap<String, u16>,
    pids: BTreeSet<u16>,
    images: u64,
    inside_txn_cuts: u64,
    strict_prefix_images: u64,
    exhaustive: bool,
}

impl CrashRun {
    /// Polls every woken pending append; acknowledged ones are marked in `written`.
    fn harvest(&mut self) {
        let mut i = 0;
        while i < self.pending.len() {
            let p = &mut self.pending[i];
            if p.flag.take() {
                let mut cx = Context::from_waker(&p.waker);
                if let Poll::Ready(res) = p.fut.as_mut().poll(&mut cx) {
                    let p = self.pending.remove(i);
                    match res {
                        Ok(_) => {
                            if let Some(w) = self.written.iter_mut().find(|w| self.h.model.txns[w.0].id == p.txn.id) {
                                w.2 = true;
                                self.h.model.txns[w.0].acked = true;
                            }
                        }
                        Err(_) => {}
                    }
                    continue;
                }
            }
            i += 1;
        }
    }

    fn submit(&mut self, spec: &AppendSpec) {
        let txn = self.h.concretise(spec);
        for e in &txn.events {
            self.streams.insert(e.stream.clone(), txn.partition_id);
        }
        self.pids.insert(txn.partition_id);
        let verdict = self.h.model.check(&txn);
        let real = Harness::to_real(&txn).expect("txn");
        let db = self.h.db().clone();
        let fut: BoxFut<Result<AppendResult, WriteError>> = Box::pin(async move { db.append_events(real).await });
        let (flag, waker) = noop_waker_flag(&self.h.gate);
        let _ = self.h.gate.take_appended();
        self.pending.push(Pending { txn: txn.clone(), fut, flag, waker });
        // first poll sends the request; then the writer processes it
        self.harvest();
        self.h.settle();
        let appended = self.h.gate.take_appended();
        // the writer has replied by now: the transaction is either written (accepted) or rejected
        if verdict.is_ok() && !appended.is_empty() {
            // accepted by the rule and records were written; the model applies it as "written"
            let acc = self.h.model.apply(&txn).expect("checked");
            self.written.push((acc.txn_no, txn.partition_id % self.h.cfg.buckets, false));
        }
        self.harvest();
    }

    /// Awaits every pending append (ticking the timer as needed).
    fn drain(&mut self) {
        for _ in 0..200 {
            self.harvest();
            if self.pending.is_empty() {
                return;
            }
            self.h.settle();
            self.harvest();
            if self.pending.is_empty() {
                return;
            }
            if self.h.cfg.timer_enabled() {
                self.h.tick();
                self.h.settle();
            } else {
                break;
            }
        }
        self.harvest();
    }
}

/// Observable state of one bucket, read once per image.
struct Observed {
    partitions: Vec<(u16, Option<u64>, Vec<EventRecord>)>,
    streams: Vec<(String, Option<u64>, Vec<EventRecord>)>,
}

fn observe_bucket(h: &mut Harness, bucket: u16, streams: &BTreeMap<String, u16>, pids: &BTreeSet<u16>) -> Result<Observed, String> {
    let nb = h.cfg.buckets;
    let mut o = Observed { partitions: vec![], streams: vec![] };
    for pid in pids.iter().filter(|p| **p % nb == bucket) {
        let latest = h.partition_sequence(*pid)?;
        let got: Vec<EventRecord> = h.scan_partition(*pid, 0, IterDirection::Forward, 50, 1_000_000)?.into_iter().flatten().flatten().collect();
        o.partitions.push((*pid, latest, got));
    }
    for (s, pid) in streams.iter().filter(|(_, p)| **p % nb == bucket) {
        let latest = h.stream_version(*pid, s)?;
        let got: Vec<EventRecord> = h.scan_stream(*pid, s, 0, IterDirection::Forward, 50, 1_000_000)?.into_iter().flatten().flatten().collect();
        o.streams.push((s.clone(), latest, got));
    }
    Ok(o)
}

fn observed_matches(o: &Observed, m: &Model) -> Result<(), String> {
    for (pid, latest, got) in &o.partitions {
        let want = m.partition_sequence(*pid);
        if *latest != want {
            return Err(format!("partition {pid}: latest sequence {latest:?}, candidate {want:?}"));
        }
        if let Some(d) = diff_lists(&m.partition_events(*pid), got) {
            return Err(format!("partition {pid} scan: {d}"));
        }
    }
    for (s, latest, got) in &o.streams {
        let want = m.stream_version(s);
        if *latest != want {
            return Err(format!("stream {s}: latest version {latest:?}, candidate {want:?}"));
        }
        if let Some(d) = diff_lists(&m.stream_events(s), got) {
            return Err(format!("stream {s} scan: {d}"));
        }
    }
    Ok(())
}

/// Model containing exactly the given transactions of `full` (in order).
fn model_of(full: &Model, txn_nos: &[usize]) -> Model {
    let mut m = Model::new(full.segment_size);
    for &t in txn_nos {
        let src = &full.txns[t];
        let mut mt = crate::model::MTxn { id: src.id, events: vec![], acked: src.acked };
        for &i in &src.events {
            let mut e: MEvent = full.events[i].clone();
            let idx = m.events.len();
            let entry = m.streams.entry(e.stream.clone()).or_insert_with(|| (e.partition_key, vec![]));
            entry.1.push(idx);
            m.partitions.entry(e.partition_id).or_default().push(idx);
            mt.events.push(idx);
            e.txn_no = m.txns.len();
            m.events.push(e);
        }
        m.txns.push(mt);
    }
    m
}

/// The C05 oracle on one opened image. Returns the per-bucket prefix lengths found.
fn check_recovered(h: &mut Harness, full: &Model, written: &[(usize, u16, bool)], streams: &BTreeMap<String, u16>, pids: &BTreeSet<u16>, ctx: &str, deep: bool) -> Option<Vec<usize>> {
    let buckets = h.cfg.buckets;
    let mut chosen: Vec<usize> = Vec::new();
    let mut chosen_txns: Vec<usize> = Vec::new();
    for b in 0..buckets {
        let of_bucket: Vec<(usize, bool)> = written.iter().filter(|w| w.1 == b).map(|w| (w.0, w.2)).collect();
        let min_len = of_bucket.iter().rposition(|w| w.1).map(|p| p + 1).unwrap_or(0);
        let mut found = None;
        let mut last_err = String::new();
        h.evals += 1;
        let observed = match observe_bucket(h, b, streams, pids) {
            Ok(o) => o,
            Err(e) => {
                let cls = if e.contains("not found") { "event-not-found" } else if e.contains("panic") { "panic" } else if e.contains("crc") { "crc" } else if e.contains("truncation") { "marker" } else { "read-error" };
                h.violation("read-api-fails", ctx, cls, format!("bucket {b}: {e}"));
                return None;
            }
        };
        // candidates: from everything written down to the acknowledged prefix
        for n in (min_len..=of_bucket.len()).rev() {
            let mut nos: Vec<usize> = written.iter().filter(|w| w.1 != b).map(|w| w.0).collect();
            nos.extend(of_bucket.iter().take(n).map(|w| w.0));
            nos.sort();
            let cand = model_of(full, &nos);
            match observed_matches(&observed, &cand) {
                Ok(()) => {
                    found = Some(n);
                    break;
                }
                Err(e) => last_err = e,
            }
        }
        match found {
            Some(n) => {
                chosen.push(n);
                chosen_txns.extend(of_bucket.iter().take(n).map(|w| w.0));
            }
            None => {
                let cls = if last_err.contains("not found") { "event-not-found" } else if last_err.contains("panic") { "panic" } else if last_err.contains("crc") { "crc" } else if last_err.contains("scan:") { "scan-differs" } else if last_err.contains("latest") { "position-differs" } else { "read-error" };
                h.violation("no-committed-prefix-matches", ctx, cls, format!("bucket {b}: no prefix of the {} written transactions (acknowledged prefix {min_len}) matches the recovered state; with only the acknowledged prefix: {last_err}", of_bucket.len()));
                return None;
            }
        }
    }
    if !deep {
        return Some(chosen);
    }
    chosen_txns.sort();
    let mut m = model_of(full, &chosen_txns);
    // every read API works on everything in the recovered prefix
    for t in 0..m.txns.len() {
        let mc = m.clone();
        h.check_txn_readable(&mc, t, ctx);
    }
    for (s, pid) in streams.clone() {
        h.evals += 1;
        if let Err(e) = h.scan_stream(pid, &s, u64::MAX, IterDirection::Reverse, 3, 1_000_000) {
            h.violation("read-api-fails", ctx, "reverse-stream-scan", format!("stream {s}: {e}"));
        }
    }
    for pid in pids.clone() {
        h.evals += 1;
        if let Err(e) = h.scan_partition(pid, u64::MAX, IterDirection::Reverse, 3, 1_000_000) {
            h.violation("read-api-fails", ctx, "reverse-partition-scan", format!("partition {pid}: {e}"));
        }
    }
    // further appends continue the numbering: new stream, existing stream Exact(current), multi-event
    let some_pk = 0usize;
    let mut followups: Vec<AppendSpec> = Vec::new();
    followups.push(AppendSpec { pk: some_pk, events: vec![EvSpec { stream: 900 + h.cfg.pks - 1 - (899 + h.cfg.pks) % h.cfg.pks, exp: ExpSpec::Empty, name_len: 3, meta_len: 0, payload_len: 40, kind: 1, bad_ts: false, meta_kind: None }], seq: ExpSpec::Cur(0), seed: 77, io_fail_at: None, io_fail_mid: false });
    if let Some((s, _)) = streams.iter().next() {
        // find the spec index of an existing stream of pk 0 if any; otherwise reuse the new stream
        let idx = (0..h.cfg.streams * h.cfg.pks).find(|i| h.cfg.stream_name(*i) == *s && i % h.cfg.pks == some_pk);
        if let Some(idx) = idx {
            followups.push(AppendSpec { pk: some_pk, events: vec![EvSpec { stream: idx, exp: ExpSpec::Cur(0), name_len: 3, meta_len: 0, payload_len: 10, kind: 1, bad_ts: false, meta_kind: None }], seq: ExpSpec::Any, seed: 78, io_fail_at: None, io_fail_mid: false });
        }
    }
    followups.push(AppendSpec { pk: some_pk, events: (0..3).map(|i| EvSpec { stream: (900 + h.cfg.pks - 1 - (899 + h.cfg.pks) % h.cfg.pks) + if i == 1 { h.cfg.pks } else { 0 }, exp: ExpSpec::Any, name_len: 2, meta_len: 0, payload_len: 300 * i, kind: 2, bad_ts: false, meta_kind: None }).collect(), seq: ExpSpec::Any, seed: 79, io_fail_at: None, io_fail_mid: false });
    let saved_model = std::mem::replace(&mut h.model, m.clone());
    for spec in &followups {
        h.evals += 1;
        let txn = h.concretise(spec);
        let verdict = h.model.check(&txn);
        match (h.append_blocking(&txn), verdict) {
            (AppendOutcome::Ok(res), Ok(())) => {
                let acc = h.model.apply(&txn).expect("checked");
                if let Some(d) = accept_matches(&acc, &res) {
                    h.violation("numbering-gap-or-reuse", ctx, "followup-append", format!("append after recovery: {d}"));
                }
                let mc = h.model.clone();
                h.check_txn_readable(&mc, acc.txn_no, ctx);
            }
            (AppendOutcome::Ok(_), Err(c)) => h.violation("followup-accepted-but-must-reject", ctx, c.as_str(), "append after recovery accepted although the recovered prefix rejects it".into()),
            (AppendOutcome::Err(e), Ok(())) => h.violation("followup-append-rejected", ctx, classify(&e).as_str(), format!("append after recovery rejected: {e}")),
            (AppendOutcome::Err(_), Err(_)) => {}
            (AppendOutcome::Stuck, _) => h.violation("followup-append-stuck", ctx, "stuck", "append after recovery never completed".into()),
        }
    }
    m = std::mem::replace(&mut h.model, saved_model);
    let _ = m;
    Some(chosen)
}

fn interesting_cuts(durable_len: u64, written_len: u64, boundaries: &[u64], rng: &mut Rng, max_cuts: usize) -> (Vec<u64>, bool) {
    let tail = written_len.saturating_sub(durable_len);
    let mut cuts: BTreeSet<u64> = BTreeSet::new();
    cuts.insert(durable_len);
    cuts.insert(written_len);
    if tail as usize <= max_cuts && tail <= 4096 {
        cuts.extend(durable_len..=written_len);
        return (cuts.into_iter().collect(), true);
    }
    for &b in boundaries {
        for d in [-1i64, 0, 1, 4, 7, 8, 9, 33, 41] {
            let k = b as i64 + d;
            if k >= durable_len as i64 && k <= written_len as i64 {
                cuts.insert(k as u64);
            }
        }
    }
    let mut all: Vec<u64> = cuts.into_iter().collect();
    while all.len() < max_cuts.min(tail as usize) {
        all.push(durable_len + rng.below(tail + 1));
    }
    all.sort();
    all.dedup();
    if all.len() > max_cuts {
        // keep the extremes, sample the rest
        let first = all[0];
        let last = *all.last().unwrap();
        rng.shuffle(&mut all);
        all.truncate(max_cuts - 2);
        all.push(first);
        all.push(last);
        all.sort();
        all.dedup();
    }
    (all, false)
}

pub fn run_c05(plan: &Value) -> RunOutcome {
    let plan: CrashPlan = serde_json::from_value(plan.clone()).expect("plan");
    let mut h = Harness::new("C05", plan.cfg.clone());
    if let Err(e) = h.open() {
        h.violation("open-fails", "DatabaseBuilder::open", "fresh-dir", e);
        return h.finish(None, json!({"cfg": plan.cfg}), None);
    }
    let mut r = CrashRun { h, pending: vec![], written: vec![], streams: BTreeMap::new(), pids: BTreeSet::new(), images: 0, inside_txn_cuts: 0, strict_prefix_images: 0, exhaustive: true };
    // record boundaries per live segment file, for cut classification: (offset, len, txn_no, is_last_record_of_txn)
    let mut records: BTreeMap<PathBuf, Vec<(u64, u64)>> = BTreeMap::new();
    for (opi, op) in plan.ops.iter().enumerate() {
        r.h.steps += 1;
        match op {
            COp::Submit(spec) => {
                let before = r.h.gate.lock().appended.len();
                let _ = before;
                let live_before = r.h.live_segments();
                let g_app_before: Vec<(u64, u64)> = r.h.gate.lock().appended.clone();
                let _ = g_app_before;
                // submit() clears and reads the append hook records itself; re-read them for boundaries
                let txn = r.h.concretise(spec);
                let bucket = txn.partition_id % r.h.cfg.buckets;
                r.submit_with_records(spec, &mut records, bucket, &live_before);
                r.h.sched.push_u64(r.written.len() as u64);
            }
            COp::Tick => {
                if r.h.cfg.timer_enabled() {
                    r.h.tick();
                    r.h.settle();
                    r.harvest();
                }
            }
            COp::Reopen => {
                r.drain();
                if !r.pending.is_empty() {
                    r.h.probe("pending_append_dropped_at_reopen");
                    r.pending.clear();
                }
                r.h.close();
                r.h.reopens += 1;
                records.clear();
                if let Err(e) = r.h.open() {
                    r.h.violation("open-fails", "DatabaseBuilder::open", "clean-reopen", e);
                    break;
                }
            }
            COp::Crash { seed, max_cuts } => {
                r.harvest();
                crash_enumerate(&mut r, &records, *seed, *max_cuts, opi);
            }
        }
    }
    r.drain();
    let nontrivial = (r.inside_txn_cuts > 0).then(|| r.h.sched.0 ^ r.h.model.state_hash());
    let sample = json!({
        "cfg": plan.cfg,
        "ops": plan.ops.iter().take(10).map(|o| match o { COp::Submit(a) => short_op(&crate::props_seq::Op::Append(a.clone())), other => serde_json::to_value(other).unwrap() }).collect::<Vec<_>>(),
        "ops_total": plan.ops.len(),
        "written_txns": r.written.len(),
        "acked_txns": r.written.iter().filter(|w| w.2).count(),
        "crash_images": r.images,
        "cuts_strictly_inside_a_transaction": r.inside_txn_cuts,
        "images_recovering_a_strict_prefix": r.strict_prefix_images,
    });
    let ex = r.exhaustive;
    let mut out_h = r.h;
    *out_h.probes.entry("crash_images".into()).or_default() += r.images;
    *out_h.probes.entry("cuts_inside_transaction".into()).or_default() += r.inside_txn_cuts;
    *out_h.probes.entry("recovered_strict_prefix".into()).or_default() += r.strict_prefix_images;
    out_h.finish(nontrivial, sample, Some(ex))
}

impl CrashRun {
    fn submit_with_records(&mut self, spec: &AppendSpec, records: &mut BTreeMap<PathBuf, Vec<(u64, u64)>>, bucket: u16, live_before: &BTreeMap<u16, PathBuf>) {
        let n_before = self.written.len();
        self.submit(spec);
        let _ = live_before;
        // `submit` consumed the hook records; recover boundaries from the model + file: simpler to
        // re-derive from the gate's per-file extents: we only need record starts for cut choice,
        // which the stored offsets of the model events give us.
        if self.written.len() > n_before {
            let live = self.h.live_segments();
            if let Some(p) = live.get(&bucket) {
                let e = records.entry(p.clone()).or_default();
                // boundaries are filled in by crash_enumerate from the file itself
                let _ = e;
            }
        }
    }
}

/// Scans a segment file image for record boundaries starting at `from` (seglog framing, H = 1).
fn scan_boundaries(bytes: &[u8], from: u64, upto: u64) -> Vec<(u64, u64)> {
    let mut out = Vec::new();
    let mut off = from as usize;
    while off + 8 <= bytes.len() && (off as u64) < upto {
        let len = u32::from_le_bytes(bytes[off..off + 4].try_into().unwrap()) & 0x7FFF_FFFF;
        if bytes[off..off + 8].iter().all(|b| *b == 0) || len == 0 {
            break;
        }
        let total = 8 + len as u64;
        out.push((off as u64, total));
        off += total as usize;
    }
    out
}

fn crash_enumerate(r: &mut CrashRun, _records: &BTreeMap<PathBuf, Vec<(u64, u64)>>, seed: u64, max_cuts: usize, opi: usize) {
    let mut rng = Rng::new(seed);
    r.h.gate.release_flush_jobs();
    r.h.settle();
    let live = r.h.live_segments();
    let full_model = r.h.model.clone();
    let written = r.written.clone();
    let (streams, pids) = (r.streams.clone(), r.pids.clone());
    for (bucket, path) in live {
        let cur = std::fs::read(&path).unwrap_or_default();
        let dur = r.h.gate.durable(&path).unwrap_or_default();
        let durable_len = dur.synced_upto.max(48);
        // written extent: last non-zero byte beyond the durable length
        let written_len = cur.iter().rposition(|b| *b != 0).map(|p| p as u64 + 1).unwrap_or(0).max(durable_len);
        if written_len <= durable_len {
            r.h.probe("crash_instant_without_unsynced_tail");
        }
        let recs = scan_boundaries(&cur, durable_len, written_len);
        let boundaries: Vec<u64> = recs.iter().map(|(o, _)| *o).collect();
        let (cuts, exhaustive) = interesting_cuts(durable_len, written_len, &boundaries, &mut rng, max_cuts);
        if !exhaustive {
            r.exhaustive = false;
        }
        let n_cuts = cuts.len();
        for (ci, k) in cuts.into_iter().enumerate() {
            // classify the cut
            let inside_record = recs.iter().any(|(o, l)| k > *o && k < o + l);
            let at_boundary = recs.iter().any(|(o, _)| k == *o) || k == written_len;
            let img = r.h.crash_image(true, Some((&path, k)));
            r.images += 1;
            r.h.fault(if inside_record { "power_loss_cut_inside_record" } else if at_boundary { "power_loss_cut_at_record_boundary" } else { "power_loss_cut" });
            let deep = ci % 16 == 0 || ci + 1 == n_cuts;
            let ctx = "recovered-image";
            let res = r.h.with_image_db(&img, |h| {
                let chosen = check_recovered(h, &full_model, &written, &streams, &pids, ctx, deep);
                if deep && chosen.is_some() {
                    // second clean reopen must give the same state
                    let dir = h.dir.clone();
                    if let Some(db) = h.db.take() {
                        h.shutdown_db(db);
                    }
                    match crate::util::catch(|| h.cfg.builder().open(&dir)) {
                        Ok(Ok(db)) => {
                            h.db = Some(db);
                        }
                        Ok(Err(e)) => h.violation("second-reopen-fails", ctx, "open", format!("{e}")),
                        Err(p) => h.violation("second-reopen-fails", ctx, "panic", p),
                    }
                }
                chosen
            });
            match res {
                Ok(Some(chosen)) => {
                    let of_bucket = written.iter().filter(|w| w.1 == bucket).count();
                    if chosen.get(bucket as usize).copied().unwrap_or(0) < of_bucket {
                        r.strict_prefix_images += 1;
                    }
                    // a cut strictly inside a transaction: after >=1 complete record of a multi-record txn, before its end
                    if inside_record || (at_boundary && k != written_len && k != durable_len) {
                        r.inside_txn_cuts += 1;
                    }
                }
                Ok(None) => {}
                Err(e) => {
                    let cls = if e.contains("panic") { "panic" } else { "error" };
                    r.h.violation("open-fails", "DatabaseBuilder::open", &format!("power-loss-image/{cls}"), format!("op {opi}: cut at {k} (durable {durable_len}, written {written_len}) of bucket {bucket}: {e}"));
                }
            }
            let _ = std::fs::remove_dir_all(&img);
            r.h.chain.push_u64(k);
        }
    }
    let _ = fnv(b"");
}

// ---------------------------------------------------------------------------------------
// C06
// ---------------------------------------------------------------------------------------

fn index_files_of(seg_dir: &Path) -> [PathBuf; 3] {
    [seg_dir.join("index.eidx"), seg_dir.join("partition.pidx"), seg_dir.join("stream.sidx")]
}

pub fn run_c06(plan: &Value) -> RunOutcome {
    let plan: CrashPlan = serde_json::from_value(plan.clone()).expect("plan");
    let mut h = Harness::new("C06", plan.cfg.clone());
    // background index flushes are held at their start: the sealed segment's index files stay empty
    h.gate.set_flush_hold(true);
    if let Err(e) = h.open() {
        h.violation("open-fails", "DatabaseBuilder::open", "fresh-dir", e);
        return h.finish(None, json!({"cfg": plan.cfg}), None);
    }
    let mut r = CrashRun { h, pending: vec![], written: vec![], streams: BTreeMap::new(), pids: BTreeSet::new(), images: 0, inside_txn_cuts: 0, strict_prefix_images: 0, exhaustive: true };
    let mut records = BTreeMap::new();
    let mut examined_segments: BTreeSet<PathBuf> = BTreeSet::new();
    let mut strict_prefix_images = 0u64;
    for (opi, op) in plan.ops.iter().enumerate() {
        r.h.steps += 1;
        match op {
            COp::Submit(spec) => {
                let live = r.h.live_segments();
                let txn = r.h.concretise(spec);
                let bucket = txn.partition_id % r.h.cfg.buckets;
                r.submit_with_records(spec, &mut records, bucket, &live);
                r.drain();
            }
            COp::Tick | COp::Reopen => {}
            COp::Crash { seed, max_cuts } => {
                r.drain();
                let mut rng = Rng::new(*seed);
                // sealed segments whose index flush has not run yet: all three files are empty
                let live: BTreeSet<PathBuf> = r.h.live_segments().values().cloned().collect();
                let mut sealed: Vec<PathBuf> = list_files(&r.h.dir).into_iter().filter(|f| f.file_name().and_then(|n| n.to_str()) == Some("data.evts") && !live.contains(f)).map(|f| f.parent().unwrap().to_path_buf()).collect();
                sealed.retain(|d| !examined_segments.contains(d));
                if sealed.is_empty() {
                    continue;
                }
                // crash state "before any flush job ran": taken now, while the jobs are held
                let img_empty = r.h.crash_image(false, None);
                // let the real jobs write the complete files, then hold later ones again
                r.h.gate.release_flush_jobs();
                let complete: BTreeMap<PathBuf, Vec<u8>> = sealed.iter().flat_map(|d| index_files_of(d)).map(|p| (p.clone(), std::fs::read(&p).unwrap_or_default())).collect();
                let full_model = r.h.model.clone();
                let written = r.written.clone();
                let (streams, pids) = (r.streams.clone(), r.pids.clone());
                for seg_dir in &sealed {
                    examined_segments.insert(seg_dir.clone());
                    let files = index_files_of(seg_dir);
                    // states per file: 0 = empty, 1..=n = strict prefix lengths, MAX = complete
                    let mut states: Vec<Vec<usize>> = Vec::new();
                    for f in &files {
                        let len = complete[f].len();
                        let mut s: BTreeSet<usize> = BTreeSet::new();
                        s.insert(0);
                        s.insert(len);
                        for b in [1usize, 3, 4, 5, 11, 12, 13, 19, 20, 21, 27, 28, 29] {
                            if b < len {
                                s.insert(b);
                            }
                        }
                        let mut k = 64;
                        while k < len {
                            s.insert(k);
                            k += 64;
                        }
                        if len > 0 {
                            s.insert(len - 1);
                        }
                        states.push(s.into_iter().collect());
                    }
                    // pairwise-style coverage: vary one file through all its states while the other two
                    // take PRNG states; plus the all-empty and all-complete corners
                    let mut combos: Vec<[usize; 3]> = vec![[0, 0, 0], [complete[&files[0]].len(), complete[&files[1]].len(), complete[&files[2]].len()]];
                    for fi in 0..3 {
                        for &st in &states[fi] {
                            let mut c = [0usize; 3];
                            for fj in 0..3 {
                                c[fj] = if fj == fi { st } else { *rng.pick(&states[fj]) };
                            }
                            combos.push(c);
                        }
                    }
                    if combos.len() > *max_cuts {
                        r.exhaustive = false;
                        let keep: Vec<[usize; 3]> = combos[..2].to_vec();
                        let mut rest = combos[2..].to_vec();
                        rng.shuffle(&mut rest);
                        rest.truncate(*max_cuts - 2);
                        combos = keep;
                        combos.extend(rest);
                    }
                    for c in combos {
                        // image = current directory (complete files) with this segment's index files replaced
                        let img = r.h.crash_image(false, None);
                        let mut strict = false;
                        for (fi, f) in files.iter().enumerate() {
                            let rel = f.strip_prefix(&r.h.dir).unwrap();
                            let data = &complete[f][..c[fi].min(complete[f].len())];
                            if !data.is_empty() && data.len() < complete[f].len() {
                                strict = true;
                            }
                            std::fs::write(img.join(rel), data).unwrap();
                        }
                        r.images += 1;
                        if strict {
                            strict_prefix_images += 1;
                        }
                        r.h.sched.push_u64((c[0] as u64) << 40 | (c[1] as u64) << 20 | c[2] as u64);
                        let shape = format!("{}-{}-{}", shape_of(c[0], complete[&files[0]].len()), shape_of(c[1], complete[&files[1]].len()), shape_of(c[2], complete[&files[2]].len()));
                        r.h.fault(&format!("index_files:{shape}"));
                        let res = r.h.with_image_db(&img, |h| {
                            check_recovered(h, &full_model, &written, &streams, &pids, "sealed-index-crash-state", r.images % 6 == 0)
                        });
                        if let Err(e) = res {
                            let cls = if e.contains("panic") { "panic" } else { "error" };
                            r.h.violation("open-fails", "DatabaseBuilder::open", &format!("{shape}/{cls}"), format!("op {opi}: sealed segment {} with index files (eidx,pidx,sidx) = {:?} bytes of {:?}: {e}", seg_dir.strip_prefix(&r.h.dir).unwrap().display(), c, [complete[&files[0]].len(), complete[&files[1]].len(), complete[&files[2]].len()]));
                        }
                        let _ = std::fs::remove_dir_all(&img);
                    }
                }
                // the genuinely-empty image taken before the flush ran (process crash right after rollover)
                r.images += 1;
                r.h.fault("index_files:process-crash-before-flush");
                let res = r.h.with_image_db(&img_empty, |h| check_recovered(h, &full_model, &written, &streams, &pids, "sealed-index-crash-state", true));
                if let Err(e) = res {
                    let cls = if e.contains("panic") { "panic" } else { "error" };
                    r.h.violation("open-fails", "DatabaseBuilder::open", &format!("empty-empty-empty/{cls}"), format!("op {opi}: process crash before the background index flush of a sealed segment: {e}"));
                }
                let _ = std::fs::remove_dir_all(&img_empty);
                r.h.gate.set_flush_hold(true);
            }
        }
    }
    let nontrivial = (strict_prefix_images > 0).then(|| r.h.sched.0 ^ r.h.model.state_hash() ^ strict_prefix_images);
    let sample = json!({
        "cfg": plan.cfg,
        "ops_total": plan.ops.len(),
        "written_txns": r.written.len(),
        "sealed_segments_examined": examined_segments.len(),
        "crash_images": r.images,
        "images_with_a_strict_nonempty_prefix": strict_prefix_images,
    });
    let ex = r.exhaustive;
    let images = r.images;
    let mut out_h = r.h;
    *out_h.probes.entry("crash_images".into()).or_default() += images;
    *out_h.probes.entry("strict_prefix_images".into()).or_default() += strict_prefix_images;
    out_h.gate.set_flush_hold(false);
    out_h.finish(nontrivial, sample, Some(ex))
}

fn shape_of(n: usize, full: usize) -> &'static str {
    if n == 0 { "empty" } else if n >= full { "complete" } else { "prefix" }
}
