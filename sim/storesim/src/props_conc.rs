//! Engine A, gated scheduler: client tasks, writer threads (parked at hook points), the sync
//! timer and the index-flush jobs are entities of one seeded scheduler; exactly one of them makes
//! progress per step. Serves C04, C15, C16 and C20.

use std::collections::{BTreeMap, BTreeSet};
use std::task::{Context, Poll};

use serde::{Deserialize, Serialize};
use serde_json::{Value, json};
use sierradb::IterDirection;
use sierradb::bucket::segment::EventRecord;
use sierradb::error::WriteError;
use sierradb::writer_thread_pool::AppendResult;
use sierradb::StreamId;
use simcore::runner::Tier;
use simcore::{Rng, RunOutcome};
use uuid::Uuid;

use crate::dbsim::*;
use crate::gate::{Flag, Mode};
use crate::model::{Expect, Model, Reject, Txn};
use crate::props_seq::{Mix, gen_append, gen_cfg};

#[derive(Clone, Debug, Serialize, Deserialize)]
#[serde(tag = "kind")]
pub enum ClientOp {
    Append(AppendSpec),
    /// optimistic append: expectations computed from what this client last observed
    OptimisticAppend { pk: usize, stream: usize, second_stream: Option<usize>, with_seq: bool, payload_len: usize, seed: u64 },
    /// look up the newest event this run has seen acknowledged (by any client)
    ReadAcked { pick: u64 },
    StreamVersion { stream: usize },
    PartitionSeq { pk: usize },
    ScanStream { stream: usize, from_last: bool, reverse: bool, batch: usize },
    ScanPartition { pk: usize, from_last: bool, reverse: bool, batch: usize },
}

#[derive(Clone, Debug, Serialize, Deserialize)]
pub struct ConcOp {
    pub client: usize,
    pub op: ClientOp,
}

#[derive(Clone, Debug, Serialize, Deserialize)]
pub struct ConcPlan {
    pub cfg: Cfg,
    pub ops: Vec<ConcOp>,
    pub nclients: usize,
    /// 0 uniform, 1 writer-starved, 2 readers preferred while a writer is inside rollover, 3 clients starved after reply
    pub policy: u8,
    pub sched_seed: u64,
    pub max_steps: u64,
    #[serde(default)]
    pub iter_yields: u32,
    #[serde(default)]
    pub crash_images: u32,
    #[serde(default)]
    pub hold_flush: bool,
}

// ---------------------------------------------------------------------------------------
// plans
// ---------------------------------------------------------------------------------------

fn conc_cfg(rng: &mut Rng, timer_policies: bool) -> Cfg {
    let mut cfg = gen_cfg(rng, true);
    cfg.segment_size = 131_072;
    if timer_policies {
        let sync = match rng.below(5) {
            // no syncer thread at all: every append has to be synced (and woken) inline
            4 => (0, 50_000, 50, 4096),
            0 => (5_000, 50_000, 1_000_000, usize::MAX / 2),
            1 => (5_000, 50_000, 50, 4096),
            2 => (20_000, 100_000, 1_000_000, 65_536),
            _ => (5_000, 50_000, 4, usize::MAX / 2),
        };
        cfg.sync_interval_us = sync.0;
        cfg.sync_idle_us = sync.1;
        cfg.max_batch = sync.2;
        cfg.min_sync_bytes = sync.3;
    }
    cfg
}

fn reader_ops(rng: &mut Rng, cfg: &Cfg, n: usize, client: usize, ops: &mut Vec<ConcOp>) {
    for _ in 0..n {
        let op = match rng.below(9) {
            0 | 1 => ClientOp::ReadAcked { pick: rng.next_u64() >> 20 },
            2 | 3 => ClientOp::StreamVersion { stream: rng.usize_below(cfg.streams * cfg.pks) },
            4 => ClientOp::PartitionSeq { pk: rng.usize_below(cfg.pks) },
            5 | 6 => ClientOp::ScanStream { stream: rng.usize_below(cfg.streams * cfg.pks), from_last: rng.chance(1, 2), reverse: rng.chance(1, 5), batch: *rng.pick(&[1usize, 3, 50]) },
            _ => ClientOp::ScanPartition { pk: rng.usize_below(cfg.pks), from_last: rng.chance(1, 2), reverse: rng.chance(1, 5), batch: *rng.pick(&[1usize, 3, 50]) },
        };
        ops.push(ConcOp { client, op });
    }
}

pub fn plan_c15(tier: Tier, seed: u64) -> Value {
    let mut rng = Rng::new(seed);
    let timer = rng.chance(1, 2);
    let mut cfg = conc_cfg(&mut rng, timer);
    cfg.streams = 1 + rng.usize_below(3);
    let appenders = 1 + rng.usize_below(3);
    let readers = 1 + rng.usize_below(3);
    let mix = Mix { wrong_expect: 0, conflict: 0, oversized: 0, bad_ts: 2, io_fail: 0, multi: 30, big_bias: 10, max_events: 3 };
    let per = match tier { Tier::Quick => 6 + rng.usize_below(8), Tier::Thorough => 8 + rng.usize_below(14) };
    let mut ops = Vec::new();
    for c in 0..appenders {
        for _ in 0..per {
            let mut a = gen_append(&mut rng, &cfg, &mix);
            for e in &mut a.events {
                e.exp = ExpSpec::Any;
            }
            a.seq = ExpSpec::Any;
            ops.push(ConcOp { client: c, op: ClientOp::Append(a) });
        }
    }
    for r in 0..readers {
        reader_ops(&mut rng, &cfg, per * 2, appenders + r, &mut ops);
    }
    let plan = ConcPlan { cfg, ops, nclients: appenders + readers, policy: *rng.pick(&[0u8, 0, 1, 2, 2]), sched_seed: rng.next_u64() >> 8, max_steps: 6000, iter_yields: rng.below(4) as u32, crash_images: 0, hold_flush: rng.chance(1, 3) };
    serde_json::to_value(plan).unwrap()
}

pub fn plan_c16(tier: Tier, seed: u64) -> Value {
    let mut rng = Rng::new(seed);
    let timer = rng.chance(2, 3);
    let mut cfg = conc_cfg(&mut rng, timer);
    cfg.pks = 1 + rng.usize_below(2);
    cfg.streams = 1 + rng.usize_below(3);
    let clients = 2 + rng.usize_below(5);
    let per = match tier { Tier::Quick => 3 + rng.usize_below(6), Tier::Thorough => 3 + rng.usize_below(8) };
    let mut ops = Vec::new();
    for c in 0..clients {
        for _ in 0..per {
            let pk = rng.usize_below(cfg.pks);
            let own: Vec<usize> = (0..cfg.streams * cfg.pks).filter(|s| s % cfg.pks == pk).collect();
            let stream = *rng.pick(&own);
            let second = if rng.chance(1, 4) { Some(*rng.pick(&own)) } else { None };
            let payload_len = if rng.chance(1, 6) { 30_000 + rng.usize_below(15_000) } else { rng.usize_below(600) };
            ops.push(ConcOp { client: c, op: ClientOp::OptimisticAppend { pk, stream, second_stream: second, with_seq: rng.chance(1, 4), payload_len, seed: rng.next_u64() >> 12 } });
            if rng.chance(1, 3) {
                ops.push(ConcOp { client: c, op: ClientOp::StreamVersion { stream } });
            }
        }
    }
    let plan = ConcPlan { cfg, ops, nclients: clients, policy: *rng.pick(&[0u8, 0, 1, 3]), sched_seed: rng.next_u64() >> 8, max_steps: 6000, iter_yields: 0, crash_images: 0, hold_flush: false };
    serde_json::to_value(plan).unwrap()
}

pub fn plan_c20(tier: Tier, seed: u64) -> Value {
    let mut rng = Rng::new(seed);
    let mut cfg = conc_cfg(&mut rng, true);
    cfg.streams = 1 + rng.usize_below(3);
    // one run in six is a burst: more clients than a writer's request channel holds (capacity is
    // max(1000 / writer threads, 16)), all on one bucket, with the writers starved so that the channel
    // is full when the syncer ticks
    let burst = rng.chance(1, 10);
    let clients = if burst { 18 + rng.usize_below(8) } else { 1 + rng.usize_below(6) };
    let per = if burst { 1 + rng.usize_below(2) } else { match tier { Tier::Quick => 3 + rng.usize_below(8), Tier::Thorough => 3 + rng.usize_below(14) } };
    if burst {
        cfg.writer_threads = 64;
        cfg.buckets = 64;
        cfg.partitions = 1;
    }
    let mix = Mix { wrong_expect: 10, conflict: 0, oversized: 5, bad_ts: 3, io_fail: 0, multi: 30, big_bias: 12, max_events: 3 };
    let mut ops = Vec::new();
    for c in 0..clients {
        for _ in 0..per {
            ops.push(ConcOp { client: c, op: ClientOp::Append(gen_append(&mut rng, &cfg, &mix)) });
        }
    }
    let plan = ConcPlan { cfg, ops, nclients: clients, policy: if burst { 1 } else { *rng.pick(&[0u8, 1, 3, 3]) }, sched_seed: rng.next_u64() >> 8, max_steps: 8000, iter_yields: 0, crash_images: 0, hold_flush: false };
    serde_json::to_value(plan).unwrap()
}

pub fn plan_c04(tier: Tier, seed: u64) -> Value {
    let mut rng = Rng::new(seed);
    let timer = rng.chance(1, 2);
    let mut cfg = conc_cfg(&mut rng, timer);
    cfg.streams = 1 + rng.usize_below(3);
    let appenders = 1 + rng.usize_below(2);
    let readers = 1 + rng.usize_below(3);
    let mix = Mix { wrong_expect: 5, conflict: 0, oversized: 0, bad_ts: 15, io_fail: 0, multi: 85, big_bias: 6, max_events: 5 };
    let per = match tier { Tier::Quick => 5 + rng.usize_below(6), Tier::Thorough => 6 + rng.usize_below(12) };
    let mut ops = Vec::new();
    for c in 0..appenders {
        for _ in 0..per {
            let mut a = gen_append(&mut rng, &cfg, &mix);
            a.seq = ExpSpec::Any;
            ops.push(ConcOp { client: c, op: ClientOp::Append(a) });
        }
    }
    for r in 0..readers {
        reader_ops(&mut rng, &cfg, per * 3, appenders + r, &mut ops);
    }
    let plan = ConcPlan { cfg, ops, nclients: appenders + readers, policy: *rng.pick(&[1u8, 1, 0, 2]), sched_seed: rng.next_u64() >> 8, max_steps: 8000, iter_yields: rng.below(3) as u32, crash_images: 1 + rng.below(3) as u32, hold_flush: rng.chance(1, 4) };
    serde_json::to_value(plan).unwrap()
}

// ---------------------------------------------------------------------------------------
// execution
// ---------------------------------------------------------------------------------------

enum Out {
    Append(Result<AppendResult, WriteError>),
    Event(Result<Option<Vec<EventRecord>>, String>),
    Version(Result<Option<u64>, String>),
    Seq(Result<Option<u64>, String>),
    Scan(Result<Vec<Vec<Vec<EventRecord>>>, String>),
}

struct Running {
    fut: BoxFut<Out>,
    invoked: u64,
    txn: Option<Txn>,
    /// what a read was asked about
    target: ReadTarget,
}

#[derive(Clone, Debug)]
enum ReadTarget {
    None,
    Event { txn_no_hint: usize, id: Uuid, first_id: Uuid, pid: u16 },
    Stream { name: String, from: u64, reverse: bool },
    Partition { pid: u16, from: u64, reverse: bool },
    Version { name: String },
    Seq { pid: u16 },
}

struct Client {
    script: Vec<ClientOp>,
    pc: usize,
    running: Option<Running>,
    flag: std::sync::Arc<Flag>,
    waker: std::task::Waker,
    // what this client has observed (per-reader monotonicity and optimistic expectations)
    seen_version: BTreeMap<String, u64>,
    seen_seq: BTreeMap<u16, u64>,
    /// what the client believes the current version/sequence is (also learnt from rejections, which
    /// reflect written-but-unsynced state and therefore are not "observations" for monotonicity)
    believed_version: BTreeMap<String, Option<u64>>,
    believed_seq: BTreeMap<u16, Option<u64>>,
    seen_stream_len: BTreeMap<String, u64>,
    seen_part_len: BTreeMap<u16, u64>,
    starved_until: u64,
}

/// One append as the history records it.
#[derive(Clone, Debug)]
struct AppendHist {
    client: usize,
    txn: Txn,
    invoked: u64,
    returned: u64,
    result: Result<AppendResult, Reject>,
}

struct ScanObs {
    by_stream: Option<String>,
    pid: u16,
    from: u64,
    reverse: bool,
    groups: Vec<Vec<EventRecord>>,
    step: u64,
}

pub fn run_conc(prop: &'static str, plan_v: &Value) -> RunOutcome {
    let plan: ConcPlan = match serde_json::from_value(plan_v.clone()) {
        Ok(p) => p,
        Err(e) => {
            let mut out = RunOutcome::default();
            out.violations.push(simcore::Violation { signature: format!("{prop}/harness/bad-plan/parse"), detail: e.to_string() });
            return out;
        }
    };
    let trace = std::env::var_os("VERIF_TRACE").is_some();
    let mut h = Harness::new(prop, plan.cfg.clone());
    // the store's own syncer thread runs its real loop under the scheduler's timer
    h.gate.set_real_syncer(true);
    h.gate.set_flush_hold(plan.hold_flush);
    h.gate.set_mode(Mode::Gated);
    if let Err(e) = h.open() {
        h.violation("open-fails", "DatabaseBuilder::open", "fresh-dir", e);
        return h.finish(None, json!({"cfg": plan.cfg}), None);
    }
    let nwriters = h.db().verif_num_writer_threads();
    let mut timer_fires_while_full = 0u32;
    h.gate.wait_all_parked(nwriters);
    let mut rng = Rng::new(plan.sched_seed);
    let mut clients: Vec<Client> = (0..plan.nclients)
        .map(|_| {
            let (flag, waker) = noop_waker_flag(&h.gate);
            Client { script: vec![], pc: 0, running: None, flag, waker, seen_version: BTreeMap::new(), seen_seq: BTreeMap::new(), believed_version: BTreeMap::new(), believed_seq: BTreeMap::new(), seen_stream_len: BTreeMap::new(), seen_part_len: BTreeMap::new(), starved_until: 0 }
        })
        .collect();
    for o in &plan.ops {
        if o.client < clients.len() {
            clients[o.client].script.push(o.op.clone());
        }
    }
    let mut step: u64 = 0;
    let mut appends: Vec<AppendHist> = Vec::new();
    let mut scans: Vec<ScanObs> = Vec::new();
    // acknowledged appends in acknowledgement order: (ack step, txn, result)
    let mut acked: Vec<(u64, Txn, AppendResult)> = Vec::new();
    let mut timer_fires = 0u64;
    let mut reads_inside_rollover = 0u64;
    let mut reads_inside_txn = 0u64;
    let mut concurrent_same_expectation = 0u64;
    let mut polled_after_rollover = 0u64;
    let mut images_left = plan.crash_images;
    let mut yields_left = plan.iter_yields;
    let mut fair_phase_started: Option<(u64, u64)> = None; // (step, sim time)
    let mut stuck_reported = false;
    let mut rollovers_at_reply: BTreeMap<usize, u64> = BTreeMap::new();
    let mut blocked_writers: BTreeSet<u64> = BTreeSet::new();

    loop {
        if step >= plan.max_steps {
            h.probe("max_steps_reached");
            break;
        }
        let all_scripts_issued = clients.iter().all(|c| c.pc >= c.script.len());
        let any_running = clients.iter().any(|c| c.running.is_some());
        if all_scripts_issued && !any_running {
            break;
        }
        if all_scripts_issued && fair_phase_started.is_none() {
            fair_phase_started = Some((step, h.gate.now()));
        }
        let fair = fair_phase_started.is_some();
        // ---- enabled entities -------------------------------------------------------------
        #[derive(Clone, Copy, Debug, PartialEq)]
        enum Ent {
            Client(usize),
            Writer(u64),
            Timer,
            Flush,
        }
        let mut enabled: Vec<Ent> = Vec::new();
        for (i, c) in clients.iter().enumerate() {
            let startable = c.running.is_none() && c.pc < c.script.len();
            let pollable = c.running.is_some() && c.flag.is_set();
            if (startable || pollable) && (fair || step >= c.starved_until) {
                enabled.push(Ent::Client(i));
            }
        }
        let writers = h.gate.enabled_writers();
        for w in &writers {
            enabled.push(Ent::Writer(*w));
        }
        if h.gate.flush_outstanding() > 0 && plan.hold_flush {
            enabled.push(Ent::Flush);
        }
        let blocked_clients = clients.iter().any(|c| c.running.is_some() && !c.flag.is_set());
        // the syncer thread ticks in (simulated) real time: at most one FlushPoll is outstanding per
        // writer, otherwise the timer would flood the queues in zero simulated time
        let queues_empty = h.gate.lock().writers.values().all(|w| w.queue <= 0);
        let a_queue_is_full = { let cap = (1000 / nwriters.max(1)).max(16) as i64; h.gate.lock().writers.values().any(|w| w.queue >= cap) };
        if h.cfg.timer_enabled() && (queues_empty || (a_queue_is_full && timer_fires_while_full < 3)) && (blocked_clients || enabled.is_empty()) {
            if a_queue_is_full {
                timer_fires_while_full += 1;
                h.probe("timer_tick_with_a_full_request_channel");
            }
            enabled.push(Ent::Timer);
        }
        if enabled.is_empty() && !blocked_writers.is_empty() {
            // give blocked writers real time; if a client holds what they wait for it will be enabled
            let mut progressed = false;
            for w in blocked_writers.clone() {
                if h.gate.wait_writer_parked(w, std::time::Duration::from_millis(500)).is_some() {
                    blocked_writers.remove(&w);
                    progressed = true;
                }
            }
            if progressed {
                continue;
            }
            h.violation("harness", "scheduler", "writer-blocked", "a writer thread is blocked and nothing else is enabled".into());
            break;
        }
        if enabled.is_empty() {
            // starved clients only: lift the starvation
            if clients.iter().any(|c| c.starved_until > step) {
                for c in &mut clients {
                    c.starved_until = 0;
                }
                continue;
            }
            if blocked_clients && !stuck_reported {
                stuck_reported = true;
                let who: Vec<usize> = clients.iter().enumerate().filter(|(_, c)| c.running.is_some()).map(|(i, _)| i).collect();
                h.violation("append-never-completes", "append_events", "no-timer", format!("clients {who:?} are blocked, no writer has work and the sync timer is disabled"));
            }
            break;
        }
        // ---- pick ---------------------------------------------------------------------------
        let writer_in_rollover = writers.iter().any(|w| h.gate.writer_state(*w).and_then(|s| s.parked).map(|p| p.starts_with("writer:rollover")).unwrap_or(false));
        let writer_in_txn = writers.iter().any(|w| h.gate.writer_state(*w).and_then(|s| s.parked).map(|p| matches!(p, "writer:event_written" | "writer:commit_written" | "writer:flushed")).unwrap_or(false));
        let pick = if fair {
            // round-robin over enabled entities, timer last
            enabled[(step as usize) % enabled.len()]
        } else {
            let weights: Vec<u64> = enabled
                .iter()
                .map(|e| match (plan.policy, e) {
                    (1, Ent::Writer(_)) => 1,
                    (1, Ent::Client(_)) => 8,
                    (2, Ent::Client(_)) if writer_in_rollover => 12,
                    (2, Ent::Writer(_)) if writer_in_rollover => 1,
                    (_, Ent::Timer) => 1,
                    (_, Ent::Flush) => 1,
                    _ => 4,
                })
                .collect();
            enabled[rng.weighted(&weights)]
        };
        step += 1;
        h.steps = step;
        h.sched.push_u64(match pick { Ent::Client(i) => i as u64, Ent::Writer(w) => 100 + w, Ent::Timer => 200, Ent::Flush => 201 });
        match pick {
            Ent::Timer => {
                if trace {
                    eprintln!("step {step}: timer");
                }
                h.tick();
                timer_fires += 1;
            }
            Ent::Flush => {
                h.gate.release_flush_jobs();
            }
            Ent::Writer(w) => {
                let site = match h.gate.step_writer_timeout(w, std::time::Duration::from_millis(300)) {
                    Some(site) => site,
                    None => {
                        // blocked on a lock that a not-yet-polled client task was granted
                        h.probe("writer_blocked_on_lock_held_by_unpolled_client");
                        if trace {
                            eprintln!("step {step}: writer {w} blocked (no hook point reached within 300 ms)");
                        }
                        blocked_writers.insert(w);
                        continue;
                    }
                };
                if trace {
                    eprintln!("step {step}: writer {w} -> {site}");
                }
                // C04: crash image while the writer is strictly inside a transaction
                if images_left > 0 && matches!(site, "writer:event_written" | "writer:commit_written") && rng.chance(1, 6) {
                    images_left -= 1;
                    crash_image_inside_txn(&mut h, &appends, site);
                }
            }
            Ent::Client(i) => {
                // start the next operation if none is running
                if clients[i].running.is_none() {
                    let op = clients[i].script[clients[i].pc].clone();
                    clients[i].pc += 1;
                    if yields_left > 0 && matches!(op, ClientOp::ScanStream { .. } | ClientOp::ScanPartition { .. }) && rng.chance(1, 3) {
                        yields_left -= 1;
                        h.gate.arm_iter_yield(1 + rng.below(2) as u32);
                    }
                    let running = start_op(&mut h, &clients[i], &op, step, &acked, &mut rng);
                    if let Some(r) = &running {
                        if let (Some(txn), ClientOp::OptimisticAppend { .. }) = (&r.txn, &op) {
                            // probe: another client has the same expectation in flight
                            for (j, other) in clients.iter().enumerate() {
                                if j != i {
                                    if let Some(Running { txn: Some(t2), .. }) = &other.running {
                                        if t2.events.iter().any(|e2| txn.events.iter().any(|e| e.stream == e2.stream && e.expect == e2.expect && !matches!(e.expect, Expect::Any))) {
                                            concurrent_same_expectation += 1;
                                        }
                                    }
                                }
                            }
                        }
                    }
                    clients[i].running = running;
                    clients[i].flag.take();
                    if clients[i].running.is_none() {
                        continue;
                    }
                } else {
                    clients[i].flag.take();
                }
                if writer_in_rollover && clients[i].running.as_ref().map(|r| r.txn.is_none()).unwrap_or(false) {
                    reads_inside_rollover += 1;
                }
                if writer_in_txn && clients[i].running.as_ref().map(|r| r.txn.is_none()).unwrap_or(false) {
                    reads_inside_txn += 1;
                }
                if trace {
                    eprintln!("step {step}: poll client {i}");
                }
                // poll once
                let polled = {
                    let c = &mut clients[i];
                    let r = c.running.as_mut().unwrap();
                    let mut cx = Context::from_waker(&c.waker);
                    h.gate.set_client_polling(true);
                    let res = crate::util::catch(|| r.fut.as_mut().poll(&mut cx));
                    h.gate.set_client_polling(false);
                    res
                };
                h.gate.wait_readers_idle();
                // a writer that was blocked on a lock this client held may run now: wait until it parks
                for w in blocked_writers.clone() {
                    if h.gate.wait_writer_parked(w, std::time::Duration::from_millis(300)).is_some() {
                        blocked_writers.remove(&w);
                    }
                }
                match polled {
                    Err(p) => {
                        let r = clients[i].running.take().unwrap();
                        let site = crate::util::panic_site(&p);
                        h.violation("panic", if r.txn.is_some() { "append_events" } else { "read" }, &site, p);
                    }
                    Ok(Poll::Pending) => {
                        // remember how many rollovers had happened when this client last ran
                        rollovers_at_reply.insert(i, h.gate.lock().rollovers);
                        if plan.policy == 3 && clients[i].running.as_ref().map(|r| r.txn.is_some()).unwrap_or(false) && rng.chance(1, 2) {
                            clients[i].starved_until = step + 4 + rng.below(40);
                        }
                    }
                    Ok(Poll::Ready(out)) => {
                        let r = clients[i].running.take().unwrap();
                        if let Some(before) = rollovers_at_reply.remove(&i) {
                            if r.txn.is_some() && h.gate.lock().rollovers > before {
                                polled_after_rollover += 1;
                            }
                        }
                        if trace {
                            eprintln!("step {step}: client {i} completed {}", match &out { Out::Append(Ok(a)) => format!("append ok seq {}..{}", a.first_partition_sequence, a.last_partition_sequence), Out::Append(Err(e)) => format!("append err {e}"), Out::Event(e) => format!("event {:?}", e.as_ref().map(|o| o.as_ref().map(|v| v.len()))), Out::Version(v) => format!("version {v:?}"), Out::Seq(v) => format!("seq {v:?}"), Out::Scan(s) => format!("scan {:?}", s.as_ref().map(|b| b.iter().map(|x| x.len()).sum::<usize>())) });
                        }
                        complete_op(&mut h, prop, i, &mut clients, r, out, step, &mut appends, &mut acked, &mut scans);
                    }
                }
            }
        }
        // ---- C20: bounded progress once the scheduler is fair --------------------------------
        if let Some((s0, t0)) = fair_phase_started {
            let budget_steps = 2000;
            let budget_ns = 4 * h.cfg.sync_idle_us.max(1) * 1000 + 1_000_000;
            if (step - s0 > budget_steps || (h.cfg.timer_enabled() && h.gate.now().saturating_sub(t0) > budget_ns * 8)) && !stuck_reported {
                let pending: Vec<usize> = clients.iter().enumerate().filter(|(_, c)| c.running.as_ref().map(|r| r.txn.is_some()).unwrap_or(false)).map(|(i, _)| i).collect();
                if !pending.is_empty() {
                    stuck_reported = true;
                    h.violation("append-never-completes", "append_events", "fair-schedule", format!("appends of clients {pending:?} still pending {} fair steps and {} simulated ms after the last operation was issued ({} timer ticks)", step - s0, (h.gate.now() - t0) / 1_000_000, timer_fires));
                }
                break;
            }
        }
    }
    // ---- wind down: let everything finish ungated ------------------------------------------------
    // (the real syncer thread leaves; from here on the harness sends FlushPoll itself)
    h.gate.stop_syncer();
    h.gate.set_real_syncer(false);
    h.gate.set_mode(Mode::Free);
    h.gate.set_flush_hold(false);
    for c in &mut clients {
        c.running = None;
    }
    h.settle();
    // the schedule perturbations that took effect (reported as fault kinds in the evidence)
    for (name, n) in [("reader_runs_while_a_writer_is_inside_a_rollover", reads_inside_rollover), ("reader_runs_while_a_writer_is_inside_a_transaction", reads_inside_txn), ("appends_with_the_same_expectation_in_flight", concurrent_same_expectation), ("append_polled_first_after_a_rollover", polled_after_rollover), ("timer_fired", timer_fires)] {
        if n > 0 {
            *h.faults.entry(name.to_string()).or_default() += n;
        }
    }
    h.probe_n("reads_while_writer_inside_rollover", reads_inside_rollover);
    h.probe_n("reads_while_writer_inside_transaction", reads_inside_txn);
    h.probe_n("same_expectation_in_flight", concurrent_same_expectation);
    h.probe_n("append_polled_first_after_a_rollover", polled_after_rollover);
    let yf = h.gate.lock().yields_fired;
    h.probe_n("iter_yield_points_taken", yf);
    // ---- history oracles ---------------------------------------------------------------------------
    let final_model = serial_replay(&mut h, prop, &appends);
    if let Some(m) = &final_model {
        check_scans_against(&mut h, m, &scans);
        if matches!(prop, "C16" | "C15" | "C04") && !h.sigs.keys().any(|k| k.contains("/panic/")) {
            // final observable state equals the serial execution
            h.model = m.clone();
            let mut streams = BTreeMap::new();
            let mut pids = BTreeSet::new();
            for a in &appends {
                for e in &a.txn.events {
                    streams.insert(e.stream.clone(), a.txn.partition_id);
                }
                pids.insert(a.txn.partition_id);
            }
            let mc = m.clone();
            h.check_versions(&mc, &streams, &pids, "final-vs-serial-order");
            h.check_full_scans(&mc, &streams, &pids, "final-vs-serial-order");
        }
    }
    let nontrivial = match prop {
        "C15" => (reads_inside_rollover > 0).then_some(h.sched.0),
        "C16" => (concurrent_same_expectation > 0).then_some(h.sched.0),
        "C20" => (polled_after_rollover > 0).then_some(h.sched.0),
        "C04" => (reads_inside_txn > 0 || plan.crash_images > images_left).then_some(h.sched.0),
        _ => Some(h.sched.0),
    };
    let sample = json!({
        "cfg": plan.cfg, "clients": plan.nclients, "ops": plan.ops.len(), "policy": plan.policy, "steps": step,
        "appends": appends.len(), "acked": acked.len(), "scans": scans.len(), "timer_fires": timer_fires,
        "first_ops": plan.ops.iter().take(8).map(|o| json!({"client": o.client, "op": format!("{:?}", o.op).chars().take(120).collect::<String>()})).collect::<Vec<_>>(),
    });
    h.finish(nontrivial, sample, None)
}

impl Harness {
    pub fn probe_n(&mut self, name: &str, n: u64) {
        *self.probes.entry(name.to_string()).or_default() += n;
    }
}

fn start_op(h: &mut Harness, c: &Client, op: &ClientOp, step: u64, acked: &[(u64, Txn, AppendResult)], rng: &mut Rng) -> Option<Running> {
    let db = h.db().clone();
    let cfg = h.cfg.clone();
    match op {
        ClientOp::Append(spec) => {
            // expectations are resolved against the harness model of *acknowledged* state only for
            // Cur(); appends in this mode use Any unless the plan says otherwise
            let txn = h.concretise(spec);
            let real = Harness::to_real(&txn).ok()?;
            Some(Running { fut: Box::pin(async move { Out::Append(db.append_events(real).await) }), invoked: step, txn: Some(txn), target: ReadTarget::None })
        }
        ClientOp::OptimisticAppend { pk, stream, second_stream, with_seq, payload_len, seed } => {
            let pkid = cfg.pk(*pk);
            let pid = cfg.partition_of(pkid);
            let hash = sierradb::id::uuid_to_partition_hash(pkid);
            let mut r = Rng::new(*seed);
            let mut events = Vec::new();
            let mut local: BTreeMap<String, u64> = BTreeMap::new();
            for s in std::iter::once(*stream).chain(second_stream.iter().copied()) {
                let name = cfg.stream_name(s);
                let expect = match local.get(&name) {
                    Some(v) => Expect::Exact(*v),
                    None => match c.believed_version.get(&name).copied().unwrap_or(c.seen_version.get(&name).copied()) {
                        Some(v) => Expect::Exact(v),
                        None => Expect::Empty,
                    },
                };
                let next = match expect { Expect::Exact(v) => v + 1, _ => 0 };
                local.insert(name.clone(), next);
                events.push(crate::model::TxnEvent {
                    id: make_id(hash, ((r.next_u64() as u128) << 64) | r.next_u64() as u128),
                    stream: name,
                    expect,
                    name: "Opt".into(),
                    metadata: vec![],
                    payload: crate::util::gen_bytes(2, *payload_len, *seed),
                    timestamp: GOOD_TS + (*seed & 0xFFFF),
                });
            }
            let seq_expect = if *with_seq { match c.believed_seq.get(&pid).copied().unwrap_or(c.seen_seq.get(&pid).copied()) { Some(s) => Expect::Exact(s), None => Expect::Empty } } else { Expect::Any };
            let id = sierradb::id::set_uuid_flag(Uuid::from_u128(((r.next_u64() as u128) << 64) | r.next_u64() as u128), events.len() == 1);
            let txn = Txn { partition_key: pkid, partition_id: pid, id, events, seq_expect };
            let real = Harness::to_real(&txn).ok()?;
            Some(Running { fut: Box::pin(async move { Out::Append(db.append_events(real).await) }), invoked: step, txn: Some(txn), target: ReadTarget::None })
        }
        ClientOp::ReadAcked { pick } => {
            if acked.is_empty() {
                return None;
            }
            // bias towards the most recent acknowledgements
            let idx = if pick % 3 == 0 { (*pick as usize / 3) % acked.len() } else { acked.len() - 1 - ((*pick as usize / 3) % acked.len().min(3)) };
            let (_, txn, _) = &acked[idx];
            let e = &txn.events[(*pick as usize / 7) % txn.events.len()];
            let (pid, id, first_id) = (txn.partition_id, e.id, txn.events[0].id);
            let by_txn = rng.chance(1, 3);
            Some(Running {
                fut: Box::pin(async move {
                    if by_txn {
                        Out::Event(db.read_transaction(pid, first_id).await.map(|o| o.map(|c| c.into_iter().collect())).map_err(|e| format!("{e}")))
                    } else {
                        Out::Event(db.read_event(pid, id).await.map(|o| o.map(|e| vec![e])).map_err(|e| format!("{e}")))
                    }
                }),
                invoked: step,
                txn: None,
                target: ReadTarget::Event { txn_no_hint: idx, id: if by_txn { first_id } else { id }, first_id, pid },
            })
        }
        ClientOp::StreamVersion { stream } => {
            let name = cfg.stream_name(*stream);
            let pid = cfg.partition_of(cfg.pk(stream % cfg.pks));
            let sid = StreamId::new(name.as_str()).unwrap();
            Some(Running { fut: Box::pin(async move { Out::Version(db.get_stream_version(pid, &sid).await.map(|o| o.map(|v| v.version)).map_err(|e| format!("{e}"))) }), invoked: step, txn: None, target: ReadTarget::Version { name } })
        }
        ClientOp::PartitionSeq { pk } => {
            let pid = cfg.partition_of(cfg.pk(*pk));
            Some(Running { fut: Box::pin(async move { Out::Seq(db.get_partition_sequence(pid).await.map(|o| o.map(|v| v.sequence)).map_err(|e| format!("{e}"))) }), invoked: step, txn: None, target: ReadTarget::Seq { pid } })
        }
        ClientOp::ScanStream { stream, from_last, reverse, batch } => {
            let name = cfg.stream_name(*stream);
            let pid = cfg.partition_of(cfg.pk(stream % cfg.pks));
            let sid = StreamId::new(name.as_str()).unwrap();
            let from = if *reverse { u64::MAX } else if *from_last { c.seen_stream_len.get(&name).copied().unwrap_or(0) } else { 0 };
            let dir = if *reverse { IterDirection::Reverse } else { IterDirection::Forward };
            let batch = *batch;
            Some(Running {
                fut: Box::pin(async move {
                    let res: Result<Vec<Vec<Vec<EventRecord>>>, String> = async {
                        let mut it = db.read_stream(pid, sid, from, dir).await.map_err(|e| format!("read_stream: {e}"))?;
                        let mut out = Vec::new();
                        while let Some(b) = it.next_batch(batch).await.map_err(|e| format!("next_batch: {e}"))? {
                            out.push(b.into_iter().map(|c| c.into_iter().collect::<Vec<_>>()).collect::<Vec<_>>());
                            if out.len() > 100_000 {
                                return Err("scan does not end".to_string());
                            }
                        }
                        Ok(out)
                    }
                    .await;
                    Out::Scan(res)
                }),
                invoked: step,
                txn: None,
                target: ReadTarget::Stream { name, from, reverse: *reverse },
            })
        }
        ClientOp::ScanPartition { pk, from_last, reverse, batch } => {
            let pid = cfg.partition_of(cfg.pk(*pk));
            let from = if *reverse { u64::MAX } else if *from_last { c.seen_part_len.get(&pid).copied().unwrap_or(0) } else { 0 };
            let dir = if *reverse { IterDirection::Reverse } else { IterDirection::Forward };
            let batch = *batch;
            Some(Running {
                fut: Box::pin(async move {
                    let res: Result<Vec<Vec<Vec<EventRecord>>>, String> = async {
                        let mut it = db.read_partition(pid, from, dir).await.map_err(|e| format!("read_partition: {e}"))?;
                        let mut out = Vec::new();
                        while let Some(b) = it.next_batch(batch).await.map_err(|e| format!("next_batch: {e}"))? {
                            out.push(b.into_iter().map(|c| c.into_iter().collect::<Vec<_>>()).collect::<Vec<_>>());
                            if out.len() > 100_000 {
                                return Err("scan does not end".to_string());
                            }
                        }
                        Ok(out)
                    }
                    .await;
                    Out::Scan(res)
                }),
                invoked: step,
                txn: None,
                target: ReadTarget::Partition { pid, from, reverse: *reverse },
            })
        }
    }
}

#[allow(clippy::too_many_arguments)]
fn complete_op(h: &mut Harness, prop: &str, i: usize, clients: &mut [Client], r: Running, out: Out, step: u64, appends: &mut Vec<AppendHist>, acked: &mut Vec<(u64, Txn, AppendResult)>, scans: &mut Vec<ScanObs>) {
    h.evals += 1;
    match (out, r.target.clone()) {
        (Out::Append(res), _) => {
            let txn = r.txn.unwrap();
            match res {
                Ok(a) => {
                    // what the client now knows
                    for (s, v) in &a.stream_versions {
                        clients[i].seen_version.insert(s.to_string(), *v);
                        clients[i].believed_version.insert(s.to_string(), Some(*v));
                    }
                    clients[i].seen_seq.insert(txn.partition_id, a.last_partition_sequence);
                    clients[i].believed_seq.insert(txn.partition_id, Some(a.last_partition_sequence));
                    acked.push((step, txn.clone(), a.clone()));
                    appends.push(AppendHist { client: i, txn, invoked: r.invoked, returned: step, result: Ok(a) });
                }
                Err(e) => {
                    let class = classify(&e);
                    if class == Reject::Other {
                        let segment_full = matches!(&e, WriteError::Writer(seglog::write::WriteError::SegmentFull { .. }));
                        if !segment_full && !format!("{e}").contains("string too long") {
                            h.violation("append-error", "append_events", "unexpected", format!("client {i}: {e}"));
                        }
                    }
                    // a failed optimistic append teaches the client the current version
                    if let WriteError::WrongExpectedVersion { stream_id, current, .. } = &e {
                        let v = match current {
                            sierradb::database::CurrentVersion::Current(v) => Some(*v),
                            sierradb::database::CurrentVersion::Empty => None,
                        };
                        clients[i].believed_version.insert(stream_id.to_string(), v);
                    }
                    if let WriteError::WrongExpectedSequence { partition_id, current, .. } = &e {
                        let v = match current {
                            sierradb::database::CurrentVersion::Current(v) => Some(*v),
                            sierradb::database::CurrentVersion::Empty => None,
                        };
                        clients[i].believed_seq.insert(*partition_id, v);
                    }
                    appends.push(AppendHist { client: i, txn, invoked: r.invoked, returned: step, result: Err(class) });
                }
            }
        }
        (Out::Event(res), ReadTarget::Event { txn_no_hint, id, first_id, pid }) => {
            let (ack_step, txn, _) = &acked[txn_no_hint];
            let _ = pid;
            match res {
                Ok(Some(events)) => {
                    // real-time: the read was invoked after the acknowledgement was observed
                    if events.is_empty() || (events[0].event_id != id) {
                        h.violation("wrong-event", "read_event", "concurrent", format!("lookup of an acknowledged event returned {:?}", events.first().map(|e| e.event_id)));
                    }
                    // all-or-nothing: a transaction lookup by first id returns every sibling
                    if id == first_id && events.len() > 1 && events.len() != txn.events.len() {
                        h.violation("partial-transaction", "read_transaction", "concurrent", format!("transaction of {} events returned {} events", txn.events.len(), events.len()));
                    }
                    for e in &events {
                        if let Some(te) = txn.events.iter().find(|t| t.id == e.event_id) {
                            if te.payload != e.payload || te.stream != &*e.stream_id {
                                h.violation("content-differs", "read_event", "concurrent", "payload or stream differs".into());
                            }
                        }
                    }
                }
                Ok(None) => {
                    if r.invoked > *ack_step {
                        h.violation("acked-event-missing", "read_event", if prop == "C15" { "invoked-after-ack" } else { "concurrent" }, format!("client {i}: event of a transaction acknowledged at step {ack_step} not found by a lookup invoked at step {} (completed {step})", r.invoked));
                    }
                }
                Err(e) => {
                    let cls = err_class(&e);
                    h.violation("read-error", "read_event", cls, format!("client {i}: lookup of an acknowledged event failed: {e}"));
                }
            }
        }
        (Out::Version(res), ReadTarget::Version { name }) => match res {
            Ok(v) => {
                // real-time lower bound from acknowledgements observed before the invocation
                let lower = acked.iter().filter(|(s, _, _)| *s < r.invoked).filter_map(|(_, _, a)| a.stream_versions.iter().find(|(k, _)| ***k == *name).map(|(_, v)| *v)).max();
                if let Some(lo) = lower {
                    if v.map(|x| x < lo).unwrap_or(true) {
                        h.violation("stale-version", "get_stream_version", "invoked-after-ack", format!("client {i}: stream {name} version {v:?} although version {lo} was acknowledged before the query was invoked"));
                    }
                }
                let prev = clients[i].seen_version.get(&name).copied();
                if let (Some(p), got) = (prev, v) {
                    if got.map(|g| g < p).unwrap_or(true) {
                        h.violation("went-backwards", "get_stream_version", "same-reader", format!("client {i}: stream {name} version {got:?} after having observed {p}"));
                    }
                }
                clients[i].believed_version.insert(name.clone(), v);
                if let Some(g) = v {
                    clients[i].seen_version.insert(name, g);
                }
            }
            Err(e) => h.violation("read-error", "get_stream_version", err_class(&e), format!("client {i}: {e}")),
        },
        (Out::Seq(res), ReadTarget::Seq { pid }) => match res {
            Ok(v) => {
                let lower = acked.iter().filter(|(s, t, _)| *s < r.invoked && t.partition_id == pid).map(|(_, _, a)| a.last_partition_sequence).max();
                if let Some(lo) = lower {
                    if v.map(|x| x < lo).unwrap_or(true) {
                        h.violation("stale-sequence", "get_partition_sequence", "invoked-after-ack", format!("client {i}: partition {pid} sequence {v:?} although {lo} was acknowledged before the query was invoked"));
                    }
                }
                let prev = clients[i].seen_seq.get(&pid).copied();
                if let (Some(p), got) = (prev, v) {
                    if got.map(|g| g < p).unwrap_or(true) {
                        h.violation("went-backwards", "get_partition_sequence", "same-reader", format!("client {i}: partition {pid} sequence {got:?} after having observed {p}"));
                    }
                }
                clients[i].believed_seq.insert(pid, v);
                if let Some(g) = v {
                    clients[i].seen_seq.insert(pid, g);
                }
            }
            Err(e) => h.violation("read-error", "get_partition_sequence", err_class(&e), format!("client {i}: {e}")),
        },
        (Out::Scan(res), ReadTarget::Stream { name, from, reverse }) => match res {
            Ok(batches) => {
                let groups: Vec<Vec<EventRecord>> = batches.into_iter().flatten().collect();
                if !reverse {
                    let got: Vec<&EventRecord> = groups.iter().flatten().collect();
                    // gapless, ordered, only this stream
                    for (k, e) in got.iter().enumerate() {
                        if &*e.stream_id != name.as_str() || e.stream_version != from + k as u64 {
                            h.violation("scan-not-gapless", "stream-scan", "concurrent", format!("client {i}: stream {name} from {from}: position {k} holds stream {} version {}", e.stream_id, e.stream_version));
                            break;
                        }
                    }
                    let end = from + got.len() as u64;
                    // real-time: acknowledged before the invocation => contained
                    let lower = acked.iter().filter(|(s, _, _)| *s < r.invoked).filter_map(|(_, _, a)| a.stream_versions.iter().find(|(k, _)| ***k == *name).map(|(_, v)| *v)).max();
                    if let Some(lo) = lower {
                        if lo >= from && end <= lo {
                            h.violation("acked-event-missing", "stream-scan", "invoked-after-ack", format!("client {i}: scan of {name} from {from} ended at version {end} although version {lo} was acknowledged before it was invoked"));
                        }
                    }
                    let prev = clients[i].seen_stream_len.get(&name).copied().unwrap_or(0);
                    if end < prev && from <= prev {
                        h.violation("went-backwards", "stream-scan", "same-reader", format!("client {i}: stream {name} scan reached version {end}, an earlier scan had reached {prev}"));
                    }
                    if end > prev {
                        clients[i].seen_stream_len.insert(name.clone(), end);
                    }
                }
                let pid = groups.first().and_then(|g| g.first()).map(|e| e.partition_id).unwrap_or(0);
                scans.push(ScanObs { by_stream: Some(name), pid, from, reverse, groups, step });
            }
            Err(e) => h.violation("read-error", "stream-scan", err_class(&e), format!("client {i}: stream {name} from {from}: {e}")),
        },
        (Out::Scan(res), ReadTarget::Partition { pid, from, reverse }) => match res {
            Ok(batches) => {
                let groups: Vec<Vec<EventRecord>> = batches.into_iter().flatten().collect();
                if !reverse {
                    let got: Vec<&EventRecord> = groups.iter().flatten().collect();
                    for (k, e) in got.iter().enumerate() {
                        if e.partition_id != pid || e.partition_sequence != from + k as u64 {
                            h.violation("scan-not-gapless", "partition-scan", "concurrent", format!("client {i}: partition {pid} from {from}: position {k} holds partition {} sequence {}", e.partition_id, e.partition_sequence));
                            break;
                        }
                    }
                    let end = from + got.len() as u64;
                    let lower = acked.iter().filter(|(s, t, _)| *s < r.invoked && t.partition_id == pid).map(|(_, _, a)| a.last_partition_sequence).max();
                    if let Some(lo) = lower {
                        if lo >= from && end <= lo {
                            h.violation("acked-event-missing", "partition-scan", "invoked-after-ack", format!("client {i}: scan of partition {pid} from {from} ended at sequence {end} although sequence {lo} was acknowledged before it was invoked"));
                        }
                    }
                    let prev = clients[i].seen_part_len.get(&pid).copied().unwrap_or(0);
                    if end < prev && from <= prev {
                        h.violation("went-backwards", "partition-scan", "same-reader", format!("client {i}: partition {pid} scan reached {end}, an earlier scan had reached {prev}"));
                    }
                    if end > prev {
                        clients[i].seen_part_len.insert(pid, end);
                    }
                }
                scans.push(ScanObs { by_stream: None, pid, from, reverse, groups, step });
            }
            Err(e) => h.violation("read-error", "partition-scan", err_class(&e), format!("client {i}: partition {pid} from {from}: {e}")),
        },
        _ => {}
    }
}

fn err_class(e: &str) -> &'static str {
    if e.contains("panic") { "panic" } else if e.contains("not found") { "event-not-found" } else if e.contains("crc") { "crc" } else if e.contains("truncation") { "marker" } else if e.contains("does not end") { "endless" } else { "other" }
}

/// C16's oracle: the successful appends, ordered by (partition, first sequence), replayed on a fresh
/// model must each be accepted with exactly the returned positions; every failure must be
/// justifiable at some point of that order compatible with real time.
fn serial_replay(h: &mut Harness, prop: &str, appends: &[AppendHist]) -> Option<Model> {
    let mut ok: Vec<&AppendHist> = appends.iter().filter(|a| a.result.is_ok()).collect();
    ok.sort_by_key(|a| {
        let r = a.result.as_ref().unwrap();
        (a.txn.partition_id, r.first_partition_sequence)
    });
    let mut m = Model::new(h.cfg.segment_size);
    // model snapshots per partition after each success, for failure justification
    let mut snapshots: BTreeMap<u16, Vec<(Model, &AppendHist)>> = BTreeMap::new();
    for a in &ok {
        h.evals += 1;
        let res = a.result.as_ref().unwrap();
        match m.apply(&a.txn) {
            Ok(acc) => {
                if let Some(d) = accept_matches(&acc, res) {
                    h.violation("not-serialisable", "append_events", "positions", format!("client {}: success does not fit the serial order by sequence: {d}", a.client));
                    return None;
                }
            }
            Err(class) => {
                h.violation("not-serialisable", "append_events", class.as_str(), format!("client {}: append reported success (sequences {}..{}) but in the serial order by sequence the rule rejects it ({}): two successes claim the same expected version or sequence", a.client, res.first_partition_sequence, res.last_partition_sequence, class.as_str()));
                return None;
            }
        }
        snapshots.entry(a.txn.partition_id).or_default().push((m.clone(), *a));
    }
    if prop == "C16" {
        for f in appends.iter().filter(|a| a.result.is_err()) {
            h.evals += 1;
            let class = *f.result.as_ref().unwrap_err();
            if matches!(class, Reject::Other) {
                continue;
            }
            let empty = Model::new(h.cfg.segment_size);
            let snaps = snapshots.get(&f.txn.partition_id);
            // candidate points: after k successes of this partition, k between
            //   lo = number of successes that returned before f was invoked
            //   hi = number of successes invoked before f returned
            let list: Vec<&(Model, &AppendHist)> = snaps.map(|v| v.iter().collect()).unwrap_or_default();
            let lo = list.iter().filter(|(_, a)| a.returned < f.invoked).count();
            let hi = list.iter().filter(|(_, a)| a.invoked < f.returned).count();
            // successes are ordered by sequence, which need not be invocation order: widen to all k in [min, max]
            let (lo, hi) = (lo.min(hi), hi.max(lo));
            let mut justified = false;
            for k in lo..=hi.min(list.len()) {
                let base: &Model = if k == 0 { &empty } else { &list[k - 1].0 };
                // the other partitions' state matters only through streams, which are per partition here
                if base.check(&f.txn) == Err(class) {
                    justified = true;
                    break;
                }
            }
            if !justified {
                h.violation("unjustified-rejection", "append_events", class.as_str(), format!("client {}: append invoked at step {} returned {} at step {}, but no point of the serial order compatible with real time rejects it that way", f.client, f.invoked, class.as_str(), f.returned));
            }
        }
    }
    Some(m)
}

/// Every scan observed during the run must be consistent with the final serial order:
/// forward scans are prefixes (from their start) of the final stream/partition, transactions are
/// returned completely (C04), reverse scans only contain final events.
fn check_scans_against(h: &mut Harness, m: &Model, scans: &[ScanObs]) {
    for s in scans {
        h.evals += 1;
        let all = match &s.by_stream {
            Some(name) => m.stream_events(name),
            None => m.partition_events(s.pid),
        };
        let what = if s.by_stream.is_some() { "stream-scan" } else { "partition-scan" };
        let key = |e: &EventRecord| if s.by_stream.is_some() { e.stream_version } else { e.partition_sequence };
        for g in &s.groups {
            for e in g {
                let k = key(e);
                match all.get(k as usize) {
                    Some(me) => {
                        if let Some(d) = me.diff(e) {
                            h.violation("event-not-in-serial-order", what, "concurrent", format!("scan at step {} returned at position {k} an event that differs from the serial order's: {d}", s.step));
                            return;
                        }
                    }
                    None => {
                        h.violation("uncommitted-event-returned", what, "concurrent", format!("scan at step {} returned an event at position {k} that no successful append wrote (stream/partition has {} events in the serial order)", s.step, all.len()));
                        return;
                    }
                }
            }
            // all-or-nothing: a group holds every sibling that passes the scan's filter and start
            if let Some(first) = g.first() {
                let txn_no = all[key(first) as usize].txn_no;
                let siblings: Vec<u64> = all.iter().filter(|me| me.txn_no == txn_no).map(|me| if s.by_stream.is_some() { me.version } else { me.sequence }).collect();
                let got: BTreeSet<u64> = g.iter().map(key).collect();
                let lowest = *got.iter().next().unwrap();
                for sib in siblings {
                    let required = if s.reverse { sib >= lowest } else { sib >= lowest.max(s.from) };
                    if required && !got.contains(&sib) {
                        h.violation("partial-transaction", what, if s.reverse { "reverse" } else { "forward" }, format!("scan at step {}: group {:?} misses sibling at position {sib} of the same transaction", s.step, got));
                        return;
                    }
                }
            }
        }
    }
}

/// C04: a process-crash image (what reached write(2)) taken while the writer is parked strictly
/// inside a transaction; the reopened database must not expose any part of an uncommitted one.
fn crash_image_inside_txn(h: &mut Harness, appends: &[AppendHist], site: &str) {
    let img = h.crash_image(false, None);
    h.fault("process_crash_image_inside_transaction");
    // transactions that were acknowledged so far are the only ones that *must* be there; anything
    // returned must be complete and must belong to an append that was at least attempted
    let known: BTreeMap<Uuid, usize> = appends.iter().filter(|a| a.result.is_ok()).map(|a| (a.txn.id, a.txn.events.len())).collect();
    let cfg = h.cfg.clone();
    let res = h.with_image_db(&img, |h| {
        for pid in 0..cfg.partitions {
            h.evals += 1;
            match h.scan_partition(pid, 0, IterDirection::Forward, 7, 1_000_000) {
                Ok(batches) => {
                    for g in batches.into_iter().flatten() {
                        let t = g[0].transaction_id;
                        let multi = !sierradb::id::get_uuid_flag(&t);
                        if multi {
                            if let Some(n) = known.get(&t) {
                                if *n != g.len() {
                                    h.violation("partial-transaction", "partition-scan", "after-process-crash", format!("transaction of {n} events recovered with {} events", g.len()));
                                }
                            }
                            // contiguous sequences within the group
                            if g.windows(2).any(|w| w[1].partition_sequence != w[0].partition_sequence + 1) {
                                h.violation("partial-transaction", "partition-scan", "after-process-crash", "recovered transaction has non-contiguous sequences".into());
                            }
                        }
                    }
                }
                Err(e) => h.violation("read-error", "partition-scan", &format!("after-process-crash/{}", err_class(&e)), format!("partition {pid} after a crash at {site}: {e}")),
            }
        }
    });
    if let Err(e) = res {
        h.violation("open-fails", "DatabaseBuilder::open", "process-crash-inside-transaction", format!("crash at {site}: {e}"));
    }
    let _ = std::fs::remove_dir_all(&img);
}
