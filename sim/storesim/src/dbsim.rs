//! Engine A — the real `sierradb::Database` (writer threads, reader pool, flusher pool, indexes,
//! block cache, seglog, real files on /dev/shm) driven by a simulator that owns the client
//! tasks (hand-rolled executor), the writer threads' progress (gates at hook points), the
//! sync timer, the clocks, the background index-flush jobs and the durability ledger.

use std::collections::{BTreeMap, BTreeSet};
use std::future::Future;
use std::path::{Path, PathBuf};
use std::pin::Pin;
use std::sync::Arc;
use std::task::{Context, Poll, Waker};
use std::time::Duration;

use serde::{Deserialize, Serialize};
use sierradb::bucket::segment::{CommittedEvents, EventRecord};
use sierradb::database::{Database, DatabaseBuilder, NewEvent, Transaction};
use sierradb::error::WriteError;
use sierradb::id::{set_uuid_flag, uuid_to_partition_hash};
use sierradb::writer_thread_pool::AppendResult;
use sierradb::{IterDirection, StreamId};
use simcore::{Chain, Rng, Violation};
use smallvec::SmallVec;
use uuid::Uuid;

use crate::gate::{Flag, GateSim, Mode, gate, list_files};
use crate::model::{Accept, Expect, MEvent, Model, Reject, Txn, TxnEvent};
use crate::util::{Scratch, gen_bytes};

// ---------------------------------------------------------------------------------------
// plan data
// ---------------------------------------------------------------------------------------

#[derive(Clone, Debug, Serialize, Deserialize)]
pub struct Cfg {
    pub buckets: u16,
    pub writer_threads: u16,
    pub partitions: u16,
    pub segment_size: usize,
    pub compression: bool,
    pub sync_interval_us: u64,
    pub sync_idle_us: u64,
    pub max_batch: usize,
    pub min_sync_bytes: usize,
    pub cache_bytes: usize,
    pub pks: usize,
    pub streams: usize,
    pub id_seed: u64,
}

#[derive(Clone, Copy, Debug, Serialize, Deserialize, PartialEq, Eq)]
pub enum ExpSpec {
    Any,
    Exists,
    Empty,
    /// Exact(current + delta); delta 0 is the right expectation for an existing stream
    Cur(i64),
    Exact(u64),
}

#[derive(Clone, Debug, Serialize, Deserialize)]
pub struct EvSpec {
    pub stream: usize,
    pub exp: ExpSpec,
    pub name_len: usize,
    pub meta_len: usize,
    pub payload_len: usize,
    pub kind: u8,
    #[serde(default)]
    pub bad_ts: bool,
    /// content kind of the metadata (default: derived from `kind`, never random bytes)
    #[serde(default)]
    pub meta_kind: Option<u8>,
}

#[derive(Clone, Debug, Serialize, Deserialize)]
pub struct AppendSpec {
    pub pk: usize,
    pub events: Vec<EvSpec>,
    pub seq: ExpSpec,
    pub seed: u64,
    /// inject an append I/O failure at the n-th record of this transaction
    #[serde(default)]
    pub io_fail_at: Option<u32>,
    #[serde(default)]
    pub io_fail_mid: bool,
}

impl Cfg {
    pub fn builder(&self) -> DatabaseBuilder {
        let mut b = DatabaseBuilder::new();
        b.segment_size_bytes(self.segment_size)
            .total_buckets(self.buckets)
            .bucket_ids_from_range(0..self.buckets)
            .writer_threads(self.writer_threads)
            .reader_threads(1)
            .sync_interval(Duration::from_micros(self.sync_interval_us))
            .sync_idle_interval(Duration::from_micros(self.sync_idle_us))
            .max_batch_size(self.max_batch)
            .min_sync_bytes(self.min_sync_bytes)
            .cache_capacity_bytes(self.cache_bytes)
            .compression(self.compression);
        b
    }

    pub fn timer_enabled(&self) -> bool {
        self.sync_interval_us > 0 && self.sync_interval_us < u64::MAX / 2
    }

    /// Partition key with an embedded 16-bit hash chosen so that partition ids spread over buckets.
    pub fn pk(&self, idx: usize) -> Uuid {
        let mut r = Rng::new(self.id_seed ^ (idx as u64).wrapping_mul(0x9E37_79B9));
        let hash = (idx as u16).wrapping_mul(7).wrapping_add((self.id_seed % 13) as u16);
        make_id(hash, ((r.next_u64() as u128) << 64) | r.next_u64() as u128)
    }

    pub fn partition_of(&self, pk: Uuid) -> u16 {
        uuid_to_partition_hash(pk) % self.partitions
    }

    pub fn bucket_of_pk(&self, idx: usize) -> u16 {
        self.partition_of(self.pk(idx)) % self.buckets
    }

    pub fn stream_name(&self, s: usize) -> String {
        // varied lengths, always valid (1..=64 chars, no NUL)
        match s % 4 {
            0 => format!("s{s}"),
            1 => format!("stream-{s}-{}", "x".repeat(s % 20)),
            2 => format!("account/{s}"),
            _ => format!("{}{s}", "long-stream-id-".repeat(3)),
        }
    }
}

/// UUID with the 16-bit partition hash embedded at bits 46..61 (the layout `uuid_to_partition_hash` reads).
pub fn make_id(hash: u16, rnd: u128) -> Uuid {
    let mask: u128 = 0xFFFFu128 << 46;
    let v = (rnd & !mask) | ((hash as u128) << 46);
    // keep version/variant nibbles plausible (v7-like), they are not validated
    let v = (v & !(0xFu128 << 76)) | (0x7u128 << 76);
    Uuid::from_bytes(v.to_be_bytes())
}

pub const GOOD_TS: u64 = 1_700_000_000_000_000_000;

// ---------------------------------------------------------------------------------------
// harness
// ---------------------------------------------------------------------------------------

pub struct Harness {
    pub cfg: Cfg,
    pub scratch: Scratch,
    pub dir: PathBuf,
    pub db: Option<Database>,
    pub gate: Arc<GateSim>,
    pub model: Model,
    pub sigs: BTreeMap<String, String>,
    pub chain: Chain,
    pub sched: Chain,
    pub evals: u64,
    pub steps: u64,
    pub faults: BTreeMap<String, u64>,
    pub probes: BTreeMap<String, u64>,
    pub next_tick: u64,
    pub ticks: u64,
    pub reopens: u64,
    pub prop: &'static str,
    pub image_no: u64,
    pub passthrough: bool,
    pub panicked: Option<String>,
}

#[derive(Debug)]
pub enum AppendOutcome {
    Ok(AppendResult),
    Err(WriteError),
    /// the future never resolved although the store is quiescent and the timer kept ticking
    Stuck,
}

pub fn classify(err: &WriteError) -> Reject {
    use sierradb::error::EventValidationError as V;
    match err {
        WriteError::WrongExpectedVersion { .. } => Reject::WrongExpectedVersion,
        WriteError::WrongExpectedSequence { .. } => Reject::WrongExpectedSequence,
        WriteError::Validation(V::PartitionKeyMismatch { .. }) => Reject::PartitionKeyMismatch,
        WriteError::EventsExceedSegmentSize => Reject::TooLarge,
        WriteError::BadSystemTime => Reject::BadTimestamp,
        _ => Reject::Other,
    }
}

pub fn noop_waker_flag(gate: &Arc<GateSim>) -> (Arc<Flag>, Waker) {
    let flag = Flag::new(gate.clone());
    let waker = Waker::from(flag.clone());
    (flag, waker)
}

impl Harness {
    pub fn new(prop: &'static str, cfg: Cfg) -> Harness {
        let gate = gate();
        gate.reset();
        gate.set_flush_hold(false);
        let scratch = Scratch::new("db");
        let dir = scratch.join("data");
        let model = Model::new(cfg.segment_size);
        Harness {
            cfg, scratch, dir, db: None, gate, model, sigs: BTreeMap::new(), chain: Chain::new(), sched: Chain::new(),
            evals: 0, steps: 0, faults: BTreeMap::new(), probes: BTreeMap::new(), next_tick: 0, ticks: 0, reopens: 0,
            prop, image_no: 0, passthrough: false, panicked: None,
        }
    }

    pub fn violation(&mut self, clause: &str, site: &str, shape: &str, detail: String) {
        let sig = format!("{}/{clause}/{site}/{shape}", self.prop);
        if std::env::var_os("VERIF_TRACE").is_some() && !self.sigs.contains_key(&sig) {
            eprintln!("  !! step {} {sig} :: {detail}", self.steps);
        }
        self.chain.push_str(&sig);
        self.sigs.entry(sig).or_insert(detail);
    }

    pub fn probe(&mut self, name: &str) {
        *self.probes.entry(name.to_string()).or_default() += 1;
    }

    pub fn fault(&mut self, name: &str) {
        *self.faults.entry(name.to_string()).or_default() += 1;
    }

    pub fn db(&self) -> &Database {
        self.db.as_ref().expect("database open")
    }

    /// Opens the database on `self.dir`. Returns false (and records why) when opening fails.
    pub fn open(&mut self) -> Result<(), String> {
        self.gate.adopt_dir(&self.dir);
        self.gate.clear_writers();
        let starts = self.gate.syncer_starts();
        match crate::util::catch(|| self.cfg.builder().open(&self.dir)) {
            Ok(Ok(db)) => {
                if self.cfg.timer_enabled() {
                    self.gate.wait_syncer_started(starts);
                }
                self.db = Some(db);
                self.next_tick = self.gate.now() + self.cfg.sync_idle_us * 1000;
                Ok(())
            }
            Ok(Err(e)) => Err(format!("{e}")),
            Err(p) => Err(format!("panic: {p}")),
        }
    }

    /// Clean shutdown: every writer syncs, threads exit, handles are dropped.
    pub fn close(&mut self) {
        self.gate.stop_syncer();
        self.gate.set_mode(Mode::Free);
        self.gate.release_flush_jobs();
        if let Some(db) = self.db.take() {
            self.shutdown_db(db);
        }
    }

    /// Shuts a database down completely: every writer thread has processed `Shutdown`, every
    /// reader job has finished, and the reader thread's thread-local reader sets are cleared
    /// (they hold an `Arc` to their own pool through the block cache, which would otherwise keep
    /// the thread and all its file descriptors alive for the rest of the process).
    pub fn shutdown_db(&mut self, db: Database) {
        let (flag, waker) = noop_waker_flag(&self.gate);
        let mut cx = Context::from_waker(&waker);
        {
            let mut fut = std::pin::pin!(db.shutdown());
            let start = std::time::Instant::now();
            loop {
                if flag.take() {
                    if let Poll::Ready(()) = fut.as_mut().poll(&mut cx) {
                        break;
                    }
                    continue;
                }
                std::thread::sleep(Duration::from_micros(50));
                if start.elapsed() > Duration::from_secs(30) {
                    panic!("simulation stuck: database shutdown did not complete");
                }
            }
        }
        db.reader_pool().install(|with_readers| with_readers(|readers| readers.clear()));
        drop(db);
    }

    /// One simulated syncer tick: advances the clock to the deadline the syncer thread would
    /// sleep until and sends FlushPoll to every writer thread.
    pub fn tick(&mut self) {
        if self.gate.real_syncer_active() {
            // the store's own syncer thread does the work; the channel occupancy tells what it sent
            match self.gate.syncer_tick() {
                Some(alive) => {
                    let n = self.db().verif_num_writer_threads();
                    for t in 0..n {
                        let len = self.db().verif_writer_queue_len(t) as i64;
                        self.gate.set_writer_queue(t as u64, len);
                    }
                    self.ticks += 1;
                    if !alive {
                        self.probe("syncer_thread_left_its_loop");
                        if self.prop == "C20" {
                            self.violation("syncer-stopped-polling", "writer-pool-syncer", "workers-alive", "the syncer thread left its loop while the store was open: no writer thread gets a FlushPoll any more, so an append that is not synced inline waits until some later append happens to sync".into());
                        }
                    }
                    return;
                }
                None => {}
            }
        }
        let now = self.gate.now();
        if self.next_tick > now {
            self.gate.advance(self.next_tick - now);
        }
        let active = {
            let mut g = self.gate.lock();
            std::mem::replace(&mut g.activity, false)
        };
        let n = self.db().verif_num_writer_threads();
        for t in 0..n {
            self.db().verif_flush_poll(t);
        }
        let interval = if active { self.cfg.sync_interval_us } else { self.cfg.sync_idle_us };
        self.next_tick = self.gate.now() + interval * 1000;
        self.ticks += 1;
    }

    /// Waits until every queued request has been processed (Free mode).
    pub fn settle(&mut self) {
        let (flag, _w) = noop_waker_flag(&self.gate);
        flag.take();
        self.gate.wait_flag_or_quiescent(&flag);
    }

    /// Free-mode executor: polls `fut` to completion; when the store is quiescent and the future
    /// is still pending the only thing that can help is the timer, so it ticks (bounded).
    pub fn block_on<T>(&mut self, fut: impl Future<Output = T>, allow_ticks: bool) -> Option<T> {
        let (flag, waker) = noop_waker_flag(&self.gate);
        let mut cx = Context::from_waker(&waker);
        let mut fut = std::pin::pin!(fut);
        let mut ticks_here = 0;
        loop {
            if flag.take() {
                match crate::util::catch(|| fut.as_mut().poll(&mut cx)) {
                    Ok(Poll::Ready(v)) => return Some(v),
                    Ok(Poll::Pending) => {}
                    Err(p) => {
                        self.panicked = Some(p);
                        return None;
                    }
                }
                continue;
            }
            if self.passthrough {
                // the image database is invisible to the gate: wait for the waker only
                let start = std::time::Instant::now();
                let mut spins = 0u32;
                while !flag.is_set() {
                    if spins < 2000 {
                        std::thread::yield_now();
                    } else {
                        std::thread::sleep(Duration::from_micros(20));
                    }
                    spins += 1;
                    if allow_ticks && self.cfg.timer_enabled() && self.db.is_some() && spins % 2500 == 0 {
                        self.tick();
                    }
                    if start.elapsed() > Duration::from_secs(20) {
                        return None;
                    }
                }
                continue;
            }
            if self.gate.wait_flag_or_quiescent(&flag) {
                continue;
            }
            // quiescent and not woken
            if allow_ticks && self.cfg.timer_enabled() && self.db.is_some() && ticks_here < 64 {
                self.tick();
                ticks_here += 1;
                // the FlushPoll is now queued; wait for its effect
                continue;
            }
            if flag.is_set() {
                continue;
            }
            return None;
        }
    }

    // ---- building concrete transactions from specs -------------------------------------

    pub fn concretise(&self, spec: &AppendSpec) -> Txn {
        let pk = self.cfg.pk(spec.pk);
        let hash = uuid_to_partition_hash(pk);
        let pid = self.cfg.partition_of(pk);
        let mut rng = Rng::new(spec.seed);
        let mut local: BTreeMap<String, Option<u64>> = BTreeMap::new();
        let mut events = Vec::new();
        for (i, e) in spec.events.iter().enumerate() {
            let stream = self.cfg.stream_name(e.stream);
            let cur = match local.get(&stream) {
                Some(v) => *v,
                None => self.model.stream_version(&stream),
            };
            let expect = match e.exp {
                ExpSpec::Any => Expect::Any,
                ExpSpec::Exists => Expect::Exists,
                ExpSpec::Empty => Expect::Empty,
                ExpSpec::Exact(v) => Expect::Exact(v),
                ExpSpec::Cur(d) => match cur {
                    Some(c) => Expect::Exact((c as i64 + d).max(0) as u64),
                    None => {
                        if d == 0 { Expect::Empty } else { Expect::Exact(d.unsigned_abs()) }
                    }
                },
            };
            local.insert(stream.clone(), Some(cur.map(|c| c + 1).unwrap_or(0)));
            let id = make_id(hash, ((rng.next_u64() as u128) << 64) | rng.next_u64() as u128);
            let name = "E".repeat(e.name_len.max(1).min(300));
            events.push(TxnEvent {
                id,
                stream,
                expect,
                name,
                metadata: gen_bytes(e.meta_kind.unwrap_or(e.kind.wrapping_add(1)), e.meta_len, spec.seed ^ (i as u64) << 8),
                payload: gen_bytes(e.kind, e.payload_len, spec.seed ^ ((i as u64) << 16) ^ 0x77),
                timestamp: if e.bad_ts { (1u64 << 63) | (spec.seed & 0xFFFF) } else { GOOD_TS + (spec.seed & 0xFFFFF) + i as u64 },
            });
        }
        let next = self.model.partition_sequence(pid);
        let seq_expect = match spec.seq {
            ExpSpec::Any => Expect::Any,
            ExpSpec::Exists => Expect::Exists,
            ExpSpec::Empty => Expect::Empty,
            ExpSpec::Exact(v) => Expect::Exact(v),
            ExpSpec::Cur(d) => match next {
                Some(c) => Expect::Exact((c as i64 + d).max(0) as u64),
                None => {
                    if d == 0 { Expect::Empty } else { Expect::Exact(d.unsigned_abs()) }
                }
            },
        };
        let txn_id = set_uuid_flag(Uuid::from_u128(((rng.next_u64() as u128) << 64) | rng.next_u64() as u128), events.len() == 1);
        Txn { partition_key: pk, partition_id: pid, id: txn_id, events, seq_expect }
    }

    pub fn to_real(txn: &Txn) -> Result<Transaction, String> {
        let events: SmallVec<[NewEvent; 4]> = txn
            .events
            .iter()
            .map(|e| NewEvent {
                event_id: e.id,
                stream_id: StreamId::new(e.stream.as_str()).expect("valid stream id"),
                stream_version: e.expect.to_real(),
                event_name: e.name.clone(),
                timestamp: e.timestamp,
                metadata: e.metadata.clone(),
                payload: e.payload.clone(),
            })
            .collect();
        let t = Transaction::new(txn.partition_key, txn.partition_id, events).map_err(|e| format!("{e}"))?;
        Ok(t.expected_partition_sequence(txn.seq_expect.to_real()).with_transaction_id(txn.id))
    }

    /// Issues one append in Free mode and waits for its outcome.
    pub fn append_blocking(&mut self, txn: &Txn) -> AppendOutcome {
        let real = Self::to_real(txn).expect("transaction construction");
        let db = self.db().clone();
        let fut = async move { db.append_events(real).await };
        match self.block_on(fut, true) {
            Some(Ok(r)) => AppendOutcome::Ok(r),
            Some(Err(e)) => AppendOutcome::Err(e),
            None => AppendOutcome::Stuck,
        }
    }

    /// Why a client future did not produce a value: it panicked, or it never completed.
    pub fn incomplete(&mut self, what: &str) -> String {
        match self.panicked.take() {
            Some(p) => format!("panic in {what}: {p}"),
            None => format!("{what} never completed"),
        }
    }

    // ---- reads (Free mode, blocking) -----------------------------------------------------

    pub fn read_event(&mut self, pid: u16, id: Uuid) -> Result<Option<EventRecord>, String> {
        let db = self.db().clone();
        match self.block_on(async move { db.read_event(pid, id).await }, false) {
            Some(Ok(v)) => Ok(v),
            Some(Err(e)) => Err(format!("{e}")),
            None => Err(self.incomplete("read_event")),
        }
    }

    pub fn read_transaction(&mut self, pid: u16, id: Uuid) -> Result<Option<Vec<EventRecord>>, String> {
        let db = self.db().clone();
        match self.block_on(async move { db.read_transaction(pid, id).await }, false) {
            Some(Ok(v)) => Ok(v.map(|c| c.into_iter().collect())),
            Some(Err(e)) => Err(format!("{e}")),
            None => Err(self.incomplete("read_transaction")),
        }
    }

    pub fn stream_version(&mut self, pid: u16, stream: &str) -> Result<Option<u64>, String> {
        let db = self.db().clone();
        let sid = StreamId::new(stream).unwrap();
        match self.block_on(async move { db.get_stream_version(pid, &sid).await }, false) {
            Some(Ok(v)) => Ok(v.map(|x| x.version)),
            Some(Err(e)) => Err(format!("{e}")),
            None => Err(self.incomplete("get_stream_version")),
        }
    }

    pub fn partition_sequence(&mut self, pid: u16) -> Result<Option<u64>, String> {
        let db = self.db().clone();
        match self.block_on(async move { db.get_partition_sequence(pid).await }, false) {
            Some(Ok(v)) => Ok(v.map(|x| x.sequence)),
            Some(Err(e)) => Err(format!("{e}")),
            None => Err(self.incomplete("get_partition_sequence")),
        }
    }

    /// Scans a stream; returns the batches (each batch a list of groups, each group a list of events).
    pub fn scan_stream(&mut self, pid: u16, stream: &str, from: u64, dir: IterDirection, batch: usize, max_batches: usize) -> Result<Vec<Vec<Vec<EventRecord>>>, String> {
        let db = self.db().clone();
        let sid = StreamId::new(stream).unwrap();
        let fut = async move {
            let mut it = db.read_stream(pid, sid, from, dir).await.map_err(|e| format!("read_stream: {e}"))?;
            let mut out = Vec::new();
            while out.len() < max_batches {
                match it.next_batch(batch).await.map_err(|e| format!("next_batch: {e}"))? {
                    Some(b) => out.push(b.into_iter().map(|c| c.into_iter().collect::<Vec<_>>()).collect::<Vec<_>>()),
                    None => break,
                }
            }
            Ok(out)
        };
        match self.block_on(fut, false) { Some(r) => r, None => Err(self.incomplete("stream scan")) }
    }

    pub fn scan_partition(&mut self, pid: u16, from: u64, dir: IterDirection, batch: usize, max_batches: usize) -> Result<Vec<Vec<Vec<EventRecord>>>, String> {
        let db = self.db().clone();
        let fut = async move {
            let mut it = db.read_partition(pid, from, dir).await.map_err(|e| format!("read_partition: {e}"))?;
            let mut out = Vec::new();
            while out.len() < max_batches {
                match it.next_batch(batch).await.map_err(|e| format!("next_batch: {e}"))? {
                    Some(b) => out.push(b.into_iter().map(|c| c.into_iter().collect::<Vec<_>>()).collect::<Vec<_>>()),
                    None => break,
                }
            }
            Ok(out)
        };
        match self.block_on(fut, false) { Some(r) => r, None => Err(self.incomplete("partition scan")) }
    }

    // ---- oracles ---------------------------------------------------------------------------

    /// Every event of transaction `txn_no` is returned identical by event lookup, transaction
    /// lookup, a forward stream scan from its version and a forward partition scan from its sequence.
    pub fn check_txn_readable(&mut self, model: &Model, txn_no: usize, ctx: &str) {
        let evs: Vec<MEvent> = model.txns[txn_no].events.iter().map(|&i| model.events[i].clone()).collect();
        let first = &evs[0];
        let pid = first.partition_id;
        for e in &evs {
            self.evals += 1;
            match self.read_event(pid, e.id) {
                Ok(Some(r)) => {
                    if let Some(d) = e.diff(&r) {
                        self.violation("content-differs", "read_event", ctx, format!("event seq {} of txn {txn_no}: {d}", e.sequence));
                    }
                }
                Ok(None) => self.violation("acked-event-missing", "read_event", ctx, format!("event seq {} version {} of acknowledged txn {txn_no} ({} events) not found", e.sequence, e.version, evs.len())),
                Err(err) => self.violation("acked-event-unreadable", "read_event", ctx, format!("event seq {} of acknowledged txn {txn_no}: {err}", e.sequence)),
            }
        }
        self.evals += 1;
        match self.read_transaction(pid, first.id) {
            Ok(Some(rs)) => {
                if rs.len() != evs.len() || rs.iter().zip(&evs).any(|(r, e)| e.diff(r).is_some()) {
                    self.violation("content-differs", "read_transaction", ctx, format!("txn {txn_no}: returned {} events, model has {}", rs.len(), evs.len()));
                }
            }
            Ok(None) => self.violation("acked-event-missing", "read_transaction", ctx, format!("acknowledged txn {txn_no} not found by its first event id")),
            Err(err) => self.violation("acked-event-unreadable", "read_transaction", ctx, format!("txn {txn_no}: {err}")),
        }
        // stream scans: per distinct stream from the first version in this transaction
        let mut seen = BTreeSet::new();
        for e in &evs {
            if !seen.insert(e.stream.clone()) {
                continue;
            }
            self.evals += 1;
            let want: Vec<&MEvent> = model.stream_events(&e.stream).into_iter().filter(|m| m.version >= e.version).collect();
            match self.scan_stream(pid, &e.stream, e.version, IterDirection::Forward, 7, 1_000_000) {
                Ok(batches) => {
                    let got: Vec<EventRecord> = batches.into_iter().flatten().flatten().collect();
                    if let Some(d) = diff_lists(&want, &got) {
                        self.violation("scan-differs", "stream-scan", ctx, format!("stream {} from version {} after ack of txn {txn_no}: {d}", e.stream, e.version));
                    }
                }
                Err(err) => self.violation("scan-error", "stream-scan", ctx, format!("stream {} from {}: {err}", e.stream, e.version)),
            }
        }
        self.evals += 1;
        let want: Vec<&MEvent> = model.partition_events(pid).into_iter().filter(|m| m.sequence >= first.sequence).collect();
        match self.scan_partition(pid, first.sequence, IterDirection::Forward, 7, 1_000_000) {
            Ok(batches) => {
                let got: Vec<EventRecord> = batches.into_iter().flatten().flatten().collect();
                if let Some(d) = diff_lists(&want, &got) {
                    self.violation("scan-differs", "partition-scan", ctx, format!("partition {pid} from sequence {} after ack of txn {txn_no}: {d}", first.sequence));
                }
            }
            Err(err) => self.violation("scan-error", "partition-scan", ctx, format!("partition {pid} from {}: {err}", first.sequence)),
        }
    }

    /// C02's observable-state diff: versions and sequences of everything ever mentioned.
    pub fn check_versions(&mut self, model: &Model, streams: &BTreeMap<String, u16>, pids: &BTreeSet<u16>, ctx: &str) {
        for (s, pid) in streams {
            self.evals += 1;
            let want = model.stream_version(s);
            match self.stream_version(*pid, s) {
                Ok(got) => {
                    if got != want {
                        self.violation("stream-version-differs", "get_stream_version", ctx, format!("stream {s}: store says {got:?}, model {want:?}"));
                    }
                }
                Err(e) => self.violation("query-error", "get_stream_version", ctx, format!("stream {s}: {e}")),
            }
        }
        for pid in pids {
            self.evals += 1;
            let want = model.partition_sequence(*pid);
            match self.partition_sequence(*pid) {
                Ok(got) => {
                    if got != want {
                        self.violation("partition-sequence-differs", "get_partition_sequence", ctx, format!("partition {pid}: store says {got:?}, model {want:?}"));
                    }
                }
                Err(e) => self.violation("query-error", "get_partition_sequence", ctx, format!("partition {pid}: {e}")),
            }
        }
    }

    /// Full forward scans of every stream and partition from 0 must equal the model.
    pub fn check_full_scans(&mut self, model: &Model, streams: &BTreeMap<String, u16>, pids: &BTreeSet<u16>, ctx: &str) {
        for (s, pid) in streams {
            self.evals += 1;
            let want = model.stream_events(s);
            match self.scan_stream(*pid, s, 0, IterDirection::Forward, 50, 1_000_000) {
                Ok(b) => {
                    let got: Vec<EventRecord> = b.into_iter().flatten().flatten().collect();
                    if let Some(d) = diff_lists(&want, &got) {
                        self.violation("scan-differs", "stream-scan", ctx, format!("stream {s} from 0: {d}"));
                    }
                }
                Err(e) => self.violation("scan-error", "stream-scan", ctx, format!("stream {s} from 0: {e}")),
            }
        }
        for pid in pids {
            self.evals += 1;
            let want = model.partition_events(*pid);
            match self.scan_partition(*pid, 0, IterDirection::Forward, 50, 1_000_000) {
                Ok(b) => {
                    let got: Vec<EventRecord> = b.into_iter().flatten().flatten().collect();
                    if let Some(d) = diff_lists(&want, &got) {
                        self.violation("scan-differs", "partition-scan", ctx, format!("partition {pid} from 0: {d}"));
                    }
                }
                Err(e) => self.violation("scan-error", "partition-scan", ctx, format!("partition {pid} from 0: {e}")),
            }
        }
    }

    // ---- crash images ----------------------------------------------------------------------

    /// Path of the live (newest) segment data file per bucket.
    pub fn live_segments(&self) -> BTreeMap<u16, PathBuf> {
        let mut out: BTreeMap<u16, (u32, PathBuf)> = BTreeMap::new();
        for f in list_files(&self.dir) {
            if f.file_name().and_then(|n| n.to_str()) != Some("data.evts") {
                continue;
            }
            if let Some((id, _)) = sierradb::bucket::SegmentKind::parse_path(&f) {
                let e = out.entry(id.bucket_id).or_insert((id.segment_id, f.clone()));
                if id.segment_id >= e.0 {
                    *e = (id.segment_id, f);
                }
            }
        }
        out.into_iter().map(|(b, (_, p))| (b, p)).collect()
    }

    /// Builds a crash image of the data directory.
    /// `cut`: for the live segment of `cut.0`, keep current bytes below `cut.1` and durable bytes from there on;
    /// every other segment data file is reduced to its durable image when `power_loss` is set.
    pub fn crash_image(&mut self, power_loss: bool, cut: Option<(&Path, u64)>) -> PathBuf {
        self.image_no += 1;
        let img = self.scratch.join(&format!("image-{}", self.image_no));
        let _ = std::fs::remove_dir_all(&img);
        for f in list_files(&self.dir) {
            let rel = f.strip_prefix(&self.dir).unwrap();
            let dst = img.join(rel);
            std::fs::create_dir_all(dst.parent().unwrap()).unwrap();
            let is_data = f.file_name().and_then(|n| n.to_str()) == Some("data.evts");
            if !is_data || !power_loss {
                std::fs::copy(&f, &dst).unwrap();
                continue;
            }
            let cur = std::fs::read(&f).unwrap();
            let dur = self.gate.durable(&f).map(|d| d.image).unwrap_or_default();
            let mut out = vec![0u8; cur.len()];
            out[..dur.len().min(cur.len())].copy_from_slice(&dur[..dur.len().min(cur.len())]);
            if let Some((p, k)) = cut {
                if p == f {
                    let k = (k as usize).min(cur.len());
                    out[..k].copy_from_slice(&cur[..k]);
                }
            }
            std::fs::write(&dst, out).unwrap();
        }
        img
    }

    /// Opens a throw-away database on `img` (hooks in passthrough mode), runs `f`, shuts it down.
    pub fn with_image_db<R>(&mut self, img: &Path, f: impl FnOnce(&mut Harness) -> R) -> Result<R, String> {
        let gated = self.gate.lock().mode_gated;
        if !gated {
            self.settle();
        }
        // background index flushes of the original database must not report while hooks are ignored
        self.gate.release_flush_jobs();
        self.gate.wait_readers_idle();
        self.gate.set_mode(Mode::Passthrough);
        self.passthrough = true;
        let saved_db = self.db.take();
        let saved_dir = std::mem::replace(&mut self.dir, img.to_path_buf());
        let saved_tick = self.next_tick;
        let saved_clock = (self.gate.mono.load(std::sync::atomic::Ordering::SeqCst), self.gate.wall.load(std::sync::atomic::Ordering::SeqCst));
        let saved_ticks = self.ticks;
        let starts = self.gate.syncer_starts();
        let res = match crate::util::catch(|| self.cfg.builder().open(img)) {
            Ok(Ok(db)) => {
                if self.cfg.timer_enabled() {
                    self.gate.wait_syncer_started(starts);
                }
                self.db = Some(db);
                let r = f(self);
                if let Some(db) = self.db.take() {
                    self.shutdown_db(db);
                }
                Ok(r)
            }
            Ok(Err(e)) => Err(format!("{e}")),
            Err(p) => Err(format!("panic: {p}")),
        };
        self.db = saved_db;
        self.dir = saved_dir;
        self.next_tick = saved_tick;
        self.ticks = saved_ticks;
        self.gate.mono.store(saved_clock.0, std::sync::atomic::Ordering::SeqCst);
        self.gate.wall.store(saved_clock.1, std::sync::atomic::Ordering::SeqCst);
        self.passthrough = false;
        self.gate.end_passthrough();
        res
    }

    pub fn finish(mut self, nontrivial: Option<u64>, sample: serde_json::Value, exhaustive: Option<bool>) -> simcore::RunOutcome {
        self.close();
        let g = self.gate.lock();
        let mut out = simcore::RunOutcome::default();
        out.evaluations = self.evals.max(1);
        out.nontrivial = nontrivial;
        out.schedule_hash = self.sched.0;
        out.state_hash = self.model.state_hash();
        out.sim_nanos = self.gate.now();
        out.steps = self.steps;
        out.exhaustive = exhaustive;
        out.faults = self.faults.clone();
        if g.fails_fired > 0 {
            *out.faults.entry("append_io_error".into()).or_default() += g.fails_fired;
        }
        out.probes = self.probes.clone();
        *out.probes.entry("rollovers".into()).or_default() += g.rollovers;
        *out.probes.entry("timer_ticks".into()).or_default() += self.ticks;
        *out.probes.entry("reopens".into()).or_default() += self.reopens;
        *out.probes.entry("fsyncs".into()).or_default() += g.fsync_total;
        drop(g);
        let mut chain = self.chain;
        chain.push_u64(self.model.state_hash());
        chain.push_u64(self.evals);
        out.event_hash = chain.0;
        out.sample = Some(sample);
        for (sig, detail) in &self.sigs {
            out.violations.push(Violation { signature: sig.clone(), detail: detail.clone() });
        }
        out
    }
}

/// Compares a list of model events with returned records; `None` when identical.
pub fn diff_lists(want: &[&MEvent], got: &[EventRecord]) -> Option<String> {
    for (i, (w, g)) in want.iter().zip(got.iter()).enumerate() {
        if let Some(d) = w.diff(g) {
            return Some(format!("position {i} (model seq {} ver {}, got seq {} ver {} stream {}): {d}", w.sequence, w.version, g.partition_sequence, g.stream_version, g.stream_id));
        }
    }
    if want.len() != got.len() {
        return Some(format!("returned {} events, model has {}", got.len(), want.len()));
    }
    None
}

pub fn committed_to_vec(c: CommittedEvents) -> Vec<EventRecord> {
    c.into_iter().collect()
}

pub fn accept_matches(acc: &Accept, res: &AppendResult) -> Option<String> {
    if acc.first_sequence != res.first_partition_sequence || acc.last_sequence != res.last_partition_sequence {
        return Some(format!("sequences {}..{} reported, model assigns {}..{}", res.first_partition_sequence, res.last_partition_sequence, acc.first_sequence, acc.last_sequence));
    }
    let got: BTreeMap<String, u64> = res.stream_versions.iter().map(|(k, v)| (k.to_string(), *v)).collect();
    if got != acc.stream_versions {
        return Some(format!("stream versions {got:?} reported, model assigns {:?}", acc.stream_versions));
    }
    None
}

pub type BoxFut<T> = Pin<Box<dyn Future<Output = T>>>;
