//! EventLogModel: the reference event store. A partition is a vector of events, a stream is a
//! (partition key, vector of events), a transaction is an ordered list of events. No I/O.

use std::collections::BTreeMap;

use sierradb::bucket::segment::EventRecord;
use uuid::Uuid;

#[derive(Clone, Copy, Debug, PartialEq, Eq)]
pub enum Expect {
    Any,
    Exists,
    Empty,
    Exact(u64),
}

impl Expect {
    pub fn to_real(self) -> sierradb::database::ExpectedVersion {
        use sierradb::database::ExpectedVersion as E;
        match self {
            Expect::Any => E::Any,
            Expect::Exists => E::Exists,
            Expect::Empty => E::Empty,
            Expect::Exact(v) => E::Exact(v),
        }
    }
}

#[derive(Clone, Debug, PartialEq, Eq)]
pub struct MEvent {
    pub id: Uuid,
    pub stream: String,
    pub version: u64,
    pub partition_key: Uuid,
    pub partition_id: u16,
    pub sequence: u64,
    pub name: String,
    pub metadata: Vec<u8>,
    pub payload: Vec<u8>,
    pub timestamp: u64,
    pub txn: Uuid,
    pub txn_no: usize,
    pub txn_pos: usize,
    pub txn_len: usize,
}

impl MEvent {
    /// Field-by-field comparison with what the store returned; `None` when identical.
    pub fn diff(&self, r: &EventRecord) -> Option<String> {
        macro_rules! cmp {
            ($name:literal, $a:expr, $b:expr) => {
                if $a != $b {
                    return Some(format!("{} differs", $name));
                }
            };
        }
        cmp!("event_id", self.id, r.event_id);
        cmp!("stream_id", self.stream.as_str(), &*r.stream_id);
        cmp!("stream_version", self.version, r.stream_version);
        cmp!("partition_key", self.partition_key, r.partition_key);
        cmp!("partition_id", self.partition_id, r.partition_id);
        cmp!("partition_sequence", self.sequence, r.partition_sequence);
        cmp!("event_name", self.name, r.event_name);
        cmp!("metadata", self.metadata, r.metadata);
        cmp!("payload", self.payload, r.payload);
        cmp!("timestamp", self.timestamp, r.timestamp);
        cmp!("transaction_id", self.txn, r.transaction_id);
        None
    }
}

#[derive(Clone, Debug)]
pub struct TxnEvent {
    pub id: Uuid,
    pub stream: String,
    pub expect: Expect,
    pub name: String,
    pub metadata: Vec<u8>,
    pub payload: Vec<u8>,
    pub timestamp: u64,
}

#[derive(Clone, Debug)]
pub struct Txn {
    pub partition_key: Uuid,
    pub partition_id: u16,
    pub id: Uuid,
    pub events: Vec<TxnEvent>,
    pub seq_expect: Expect,
}

#[derive(Clone, Copy, Debug, PartialEq, Eq, PartialOrd, Ord)]
pub enum Reject {
    WrongExpectedVersion,
    PartitionKeyMismatch,
    TooLarge,
    WrongExpectedSequence,
    BadTimestamp,
    Other,
}

impl Reject {
    pub fn as_str(&self) -> &'static str {
        match self {
            Reject::WrongExpectedVersion => "WrongExpectedVersion",
            Reject::PartitionKeyMismatch => "PartitionKeyMismatch",
            Reject::TooLarge => "EventsExceedSegmentSize",
            Reject::WrongExpectedSequence => "WrongExpectedSequence",
            Reject::BadTimestamp => "BadTimestamp",
            Reject::Other => "Other",
        }
    }
}

#[derive(Clone, Debug)]
pub struct Accept {
    pub first_sequence: u64,
    pub last_sequence: u64,
    /// latest version per stream touched
    pub stream_versions: BTreeMap<String, u64>,
    pub txn_no: usize,
}

#[derive(Clone, Debug, Default)]
pub struct MTxn {
    pub id: Uuid,
    pub events: Vec<usize>,
    pub acked: bool,
}

#[derive(Clone, Debug, Default)]
pub struct Model {
    pub events: Vec<MEvent>,
    pub partitions: BTreeMap<u16, Vec<usize>>,
    pub streams: BTreeMap<String, (Uuid, Vec<usize>)>,
    pub txns: Vec<MTxn>,
    pub segment_size: usize,
}

// sizes from crates/sierradb/src/bucket/segment.rs (the documented estimate, EVENT_HEADER_SIZE etc.)
pub const SEGMENT_HEADER_SIZE: usize = 48;
pub const RECORD_HEADER_SIZE: usize = 8 + 1 + 8 + 16;
pub const EVENT_HEADER_SIZE: usize = RECORD_HEADER_SIZE + 16 + 16 + 2 + 8 + 8 + 1 + 1 + 4 + 4;
pub const COMMIT_SIZE: usize = RECORD_HEADER_SIZE + 4;

pub fn estimated_size(txn: &Txn) -> usize {
    let ev: usize = txn
        .events
        .iter()
        .map(|e| EVENT_HEADER_SIZE + e.stream.len() + e.name.len() + e.metadata.len() + e.payload.len())
        .sum();
    ev + if txn.events.len() == 1 { 0 } else { COMMIT_SIZE }
}

impl Model {
    pub fn new(segment_size: usize) -> Self {
        Model { segment_size, ..Default::default() }
    }

    pub fn stream_version(&self, stream: &str) -> Option<u64> {
        self.streams.get(stream).and_then(|(_, v)| v.len().checked_sub(1)).map(|v| v as u64)
    }

    pub fn partition_sequence(&self, pid: u16) -> Option<u64> {
        self.partitions.get(&pid).and_then(|v| v.len().checked_sub(1)).map(|v| v as u64)
    }

    pub fn stream_events(&self, stream: &str) -> Vec<&MEvent> {
        self.streams.get(stream).map(|(_, v)| v.iter().map(|&i| &self.events[i]).collect()).unwrap_or_default()
    }

    pub fn partition_events(&self, pid: u16) -> Vec<&MEvent> {
        self.partitions.get(&pid).map(|v| v.iter().map(|&i| &self.events[i]).collect()).unwrap_or_default()
    }

    /// C02's rule, literally: validation without mutation.
    pub fn check(&self, txn: &Txn) -> Result<(), Reject> {
        // 1. per-event stream expectations, including earlier events of the same transaction
        let mut local: BTreeMap<&str, u64> = BTreeMap::new(); // stream -> current version inside txn
        for e in &txn.events {
            match local.get(e.stream.as_str()).copied() {
                Some(cur) => {
                    match e.expect {
                        Expect::Any | Expect::Exists => {}
                        Expect::Empty => return Err(Reject::WrongExpectedVersion),
                        Expect::Exact(v) => {
                            if v != cur {
                                return Err(Reject::WrongExpectedVersion);
                            }
                        }
                    }
                    local.insert(&e.stream, cur + 1);
                }
                None => {
                    let existing = self.streams.get(&e.stream).filter(|(_, v)| !v.is_empty());
                    if let Some((pk, _)) = existing {
                        if *pk != txn.partition_key {
                            return Err(Reject::PartitionKeyMismatch);
                        }
                    }
                    let cur = existing.map(|(_, v)| v.len() as u64 - 1);
                    match (e.expect, cur) {
                        (Expect::Any, _) => {}
                        (Expect::Exists, Some(_)) => {}
                        (Expect::Exists, None) => return Err(Reject::WrongExpectedVersion),
                        (Expect::Empty, None) => {}
                        (Expect::Empty, Some(_)) => return Err(Reject::WrongExpectedVersion),
                        (Expect::Exact(v), Some(c)) if v == c => {}
                        (Expect::Exact(_), _) => return Err(Reject::WrongExpectedVersion),
                    }
                    local.insert(&e.stream, cur.map(|c| c + 1).unwrap_or(0));
                }
            }
        }
        // 2. size against an empty segment (the store's documented estimate)
        if estimated_size(txn) + SEGMENT_HEADER_SIZE > self.segment_size {
            return Err(Reject::TooLarge);
        }
        // 3. expected partition sequence
        let next = self.partitions.get(&txn.partition_id).map(|v| v.len() as u64).unwrap_or(0);
        match txn.seq_expect {
            Expect::Any => {}
            Expect::Exists => {
                if next == 0 {
                    return Err(Reject::WrongExpectedSequence);
                }
            }
            Expect::Empty => {
                if next != 0 {
                    return Err(Reject::WrongExpectedSequence);
                }
            }
            Expect::Exact(s) => {
                if next == 0 || next - 1 != s {
                    return Err(Reject::WrongExpectedSequence);
                }
            }
        }
        // 4. per event, in order: timestamps must fit 63 bits; field limits of the record format
        for e in &txn.events {
            if e.timestamp >> 63 == 1 {
                return Err(Reject::BadTimestamp);
            }
            if e.name.len() > 255 {
                return Err(Reject::Other);
            }
        }
        Ok(())
    }

    pub fn apply(&mut self, txn: &Txn) -> Result<Accept, Reject> {
        self.check(txn)?;
        let txn_no = self.txns.len();
        let mut mt = MTxn { id: txn.id, events: vec![], acked: false };
        let first = self.partitions.get(&txn.partition_id).map(|v| v.len() as u64).unwrap_or(0);
        let mut stream_versions = BTreeMap::new();
        for (pos, e) in txn.events.iter().enumerate() {
            let sequence = first + pos as u64;
            let entry = self.streams.entry(e.stream.clone()).or_insert_with(|| (txn.partition_key, vec![]));
            if entry.1.is_empty() {
                entry.0 = txn.partition_key;
            }
            let version = entry.1.len() as u64;
            let idx = self.events.len();
            entry.1.push(idx);
            self.partitions.entry(txn.partition_id).or_default().push(idx);
            stream_versions.insert(e.stream.clone(), version);
            mt.events.push(idx);
            self.events.push(MEvent {
                id: e.id,
                stream: e.stream.clone(),
                version,
                partition_key: txn.partition_key,
                partition_id: txn.partition_id,
                sequence,
                name: e.name.clone(),
                metadata: e.metadata.clone(),
                payload: e.payload.clone(),
                timestamp: e.timestamp,
                txn: txn.id,
                txn_no,
                txn_pos: pos,
                txn_len: txn.events.len(),
            });
        }
        self.txns.push(mt);
        Ok(Accept { first_sequence: first, last_sequence: first + txn.events.len() as u64 - 1, stream_versions, txn_no })
    }

    /// Model restricted to the first `n` transactions (for crash-prefix candidates).
    pub fn prefix(&self, n: usize) -> Model {
        let mut m = Model::new(self.segment_size);
        for t in self.txns.iter().take(n) {
            let mut mt = MTxn { id: t.id, events: vec![], acked: t.acked };
            for &i in &t.events {
                let e = self.events[i].clone();
                let idx = m.events.len();
                let entry = m.streams.entry(e.stream.clone()).or_insert_with(|| (e.partition_key, vec![]));
                entry.1.push(idx);
                m.partitions.entry(e.partition_id).or_default().push(idx);
                mt.events.push(idx);
                let mut e2 = e;
                e2.txn_no = m.txns.len();
                m.events.push(e2);
            }
            m.txns.push(mt);
        }
        m
    }

    pub fn state_hash(&self) -> u64 {
        let mut c = simcore::Chain::new();
        for e in &self.events {
            c.push(e.id.as_bytes());
            c.push_u64(e.sequence);
            c.push_u64(e.version);
        }
        c.0
    }
}
